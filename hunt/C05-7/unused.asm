.equ a = 1/0
.equ b = 9223372036854775807+1
.equ c = 5 % 0
 nop
