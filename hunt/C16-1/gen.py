# writes bomb.asm (about 16 KiB): 3 macro levels, 260 000 expansions of a 4000-line body = 1.04e9 instructions
a='.macro a\n'+'nop\n'*4000+'.endm\n'
b='.macro b\n'+'a\n'*100+'.endm\n'
c='.macro c\n'+'b\n'*100+'.endm\n'
open('bomb.asm','w').write(a+b+c+'c\n'*26)
