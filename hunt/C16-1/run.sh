#!/bin/sh
# usage: run.sh /path/to/avra-rs
BIN=${1:-/tmp/hunt-wt-8-target/debug/avra-rs}
D=$(cd "$(dirname "$0")" && pwd)
T=$(mktemp -d)
[ -f $D/bomb.asm ] || (cd $D && python3 gen.py)
echo "16 KiB source, address space capped at 2 GB so that the machine survives, 5 min time limit:"
( ulimit -v 2000000; time timeout 300 $BIN -s $D/bomb.asm -o $T/o.hex; echo "exit=$?" )
echo "expected: prompt error (the image cannot fit any device: flash of the default device is 4194304 words) with modest memory"
echo "observed: runs for about a minute eating memory, then 'memory allocation of ... bytes failed' + SIGABRT (exit 134); without the cap it goes on until RAM is exhausted (>2.2 GB after 2 min and still in pass 0)"
rm -rf $T
