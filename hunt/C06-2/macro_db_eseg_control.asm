.macro to_eeprom
.db 5
.eseg
.endm
 to_eeprom
.db 1
.db 2
