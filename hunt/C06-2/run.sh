#!/bin/bash
# usage: run.sh /path/to/avra-rs
BIN=${1:-/tmp/hunt-wt-6-target/debug/avra-rs}
cd "$(dirname "$0")"
for f in macro_nop_dseg_control macro_only_dseg macro_db_eseg_control macro_only_eseg; do
  rm -f $f.hex $f.eep.hex
  "$BIN" -s $f.asm -o $f.hex -e $f.eep.hex; echo "$f rc=$?"
  [ -f $f.hex ] && { echo "  flash hex:"; sed 's/^/    /' $f.hex; }
  [ -f $f.eep.hex ] && { echo "  eeprom hex:"; sed 's/^/    /' $f.eep.hex; }
done
echo "EXPECTED: macro_only_dseg fails like macro_nop_dseg_control ('.db are not allowed in data segment');"
echo "          macro_only_eseg puts 01 02 unpadded into EEPROM like macro_db_eseg_control does."
echo "OBSERVED: macro_only_dseg builds and emits 01 00 into flash; macro_only_eseg emits 01 00 02 00 (padded) into flash, EEPROM empty."
