.macro to_data
 nop
.dseg
.endm
 to_data
.db 1
