.macro to_data
.dseg
.endm
 to_data
.db 1
