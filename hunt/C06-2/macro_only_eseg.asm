.macro to_eeprom
.eseg
.endm
 to_eeprom
.db 1
.db 2
