#!/bin/bash
# usage: run.sh /path/to/avra-rs
B=${1:-/tmp/hunt-wt-9-target/debug/avra-rs}
cd "$(dirname "$0")"
{ echo ".macro m"; echo "	nop"; echo ".endm"; for i in $(seq 1 262145); do echo "	m"; done; } > many_calls.asm
echo "== many_calls.asm (262145 calls of a one-nop macro; 262145 words fit the default 4M-word flash)"
$B -s many_calls.asm -o many_calls.hex; echo "exit=$?"
echo "== nested70.asm (m1 calls m2 ... calls m70, each one nop)"
$B -s nested70.asm -o nested70.hex; echo "exit=$?"
rm -f many_calls.asm
