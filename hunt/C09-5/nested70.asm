.macro m1
	nop
	m2
.endm
.macro m2
	nop
	m3
.endm
.macro m3
	nop
	m4
.endm
.macro m4
	nop
	m5
.endm
.macro m5
	nop
	m6
.endm
.macro m6
	nop
	m7
.endm
.macro m7
	nop
	m8
.endm
.macro m8
	nop
	m9
.endm
.macro m9
	nop
	m10
.endm
.macro m10
	nop
	m11
.endm
.macro m11
	nop
	m12
.endm
.macro m12
	nop
	m13
.endm
.macro m13
	nop
	m14
.endm
.macro m14
	nop
	m15
.endm
.macro m15
	nop
	m16
.endm
.macro m16
	nop
	m17
.endm
.macro m17
	nop
	m18
.endm
.macro m18
	nop
	m19
.endm
.macro m19
	nop
	m20
.endm
.macro m20
	nop
	m21
.endm
.macro m21
	nop
	m22
.endm
.macro m22
	nop
	m23
.endm
.macro m23
	nop
	m24
.endm
.macro m24
	nop
	m25
.endm
.macro m25
	nop
	m26
.endm
.macro m26
	nop
	m27
.endm
.macro m27
	nop
	m28
.endm
.macro m28
	nop
	m29
.endm
.macro m29
	nop
	m30
.endm
.macro m30
	nop
	m31
.endm
.macro m31
	nop
	m32
.endm
.macro m32
	nop
	m33
.endm
.macro m33
	nop
	m34
.endm
.macro m34
	nop
	m35
.endm
.macro m35
	nop
	m36
.endm
.macro m36
	nop
	m37
.endm
.macro m37
	nop
	m38
.endm
.macro m38
	nop
	m39
.endm
.macro m39
	nop
	m40
.endm
.macro m40
	nop
	m41
.endm
.macro m41
	nop
	m42
.endm
.macro m42
	nop
	m43
.endm
.macro m43
	nop
	m44
.endm
.macro m44
	nop
	m45
.endm
.macro m45
	nop
	m46
.endm
.macro m46
	nop
	m47
.endm
.macro m47
	nop
	m48
.endm
.macro m48
	nop
	m49
.endm
.macro m49
	nop
	m50
.endm
.macro m50
	nop
	m51
.endm
.macro m51
	nop
	m52
.endm
.macro m52
	nop
	m53
.endm
.macro m53
	nop
	m54
.endm
.macro m54
	nop
	m55
.endm
.macro m55
	nop
	m56
.endm
.macro m56
	nop
	m57
.endm
.macro m57
	nop
	m58
.endm
.macro m58
	nop
	m59
.endm
.macro m59
	nop
	m60
.endm
.macro m60
	nop
	m61
.endm
.macro m61
	nop
	m62
.endm
.macro m62
	nop
	m63
.endm
.macro m63
	nop
	m64
.endm
.macro m64
	nop
	m65
.endm
.macro m65
	nop
	m66
.endm
.macro m66
	nop
	m67
.endm
.macro m67
	nop
	m68
.endm
.macro m68
	nop
	m69
.endm
.macro m69
	nop
	m70
.endm
.macro m70
	nop
.endm
	m1
