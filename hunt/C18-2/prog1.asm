        ldi r16, 1
        .eseg
        .db 1
