#!/bin/bash
# usage: run.sh [path-to-avra-rs]
# The two sources are copied to file names that are not valid UTF-8 (legal on Linux): 'p\xff.asm' and 'q\xfe.asm'
BIN=${1:-/tmp/hunt-wt-4-target/debug/avra-rs}
HERE="$(cd "$(dirname "$0")" && pwd)"
T=$(mktemp -d); cd $T
A=$(printf 'p\377.asm'); B=$(printf 'q\376.asm')
cp $HERE/prog1.asm "$A"; cp $HERE/prog2.asm "$B"
"$BIN" -s "$A"; echo "exit=$?"
echo "directory after building p<FF>.asm:"; ls -A | cat -v
"$BIN" -s "$B"; echo "exit=$?"
echo "directory after building q<FE>.asm too:"; ls -A | cat -v
echo ".hex now holds (second program overwrote the first):"; cat .hex
echo "expected: p<FF>.hex + p<FF>.eep.hex and q<FE>.hex + q<FE>.eep.hex (<source stem>.hex next to the source), or a visible failure; observed: both builds exit 0 and write '.hex' / '.eep.hex'"
cd /; rm -rf $T
