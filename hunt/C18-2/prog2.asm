        ldi r17, 2
        .eseg
        .db 2
