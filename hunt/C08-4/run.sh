#!/bin/sh
# usage: run.sh /path/to/avra-rs
BIN=${1:-/tmp/hunt-wt-8-target/debug/avra-rs}
D=$(cd "$(dirname "$0")" && pwd)
T=$(mktemp -d)
$BIN -s $D/ifdef_equ.asm -o $T/o.hex; echo "exit=$?"; cat $T/o.hex 2>/dev/null
echo "expected: 0000 (nop) only;  observed: 0895 8895 (ret, sleep): .ifdef BAUD is false and .ifndef BAUD is true although BAUD is an .equ constant"
rm -rf $T
