.equ BAUD = 9600
.ifdef BAUD
 nop            ; expected: BAUD is defined
.else
 ret
.endif
.ifndef BAUD
 sleep          ; must not be assembled
.endif
