; ATmega8 vector table with a handler called int0; m8def.inc also has `.equ INT0 = 6` (a GICR bit number)
.include "m8def.inc"
        rjmp reset          ; 0: -> reset (3): d = 2 -> c002
        rjmp int0           ; 1: -> int0  (5): d = 3 -> c003
        brne int0           ; 2: -> int0  (5): d = 2 -> f411
reset:  nop                 ; 3
        nop                 ; 4
int0:   reti                ; 5
