; minimal: a label and an .equ / #define of the same name - no duplicate-name error, the branch follows the .equ
.equ    foo = 9
#define bar
        nop                 ; 0
foo:    nop                 ; 1
        rjmp foo            ; 2: -> 1: d = -2 -> cffe
bar:    nop                 ; 3
        rcall bar           ; 4: -> 3: d = -2 -> dffe
