#!/bin/bash
B=${1:-/tmp/hunt-wt-3-target/debug/avra-rs}
cd "$(dirname "$0")"
echo "== int0_label.asm      expected record data: 02C003C011F4000000001895"
$B -s int0_label.asm -o /tmp/c03-3.hex >/dev/null; echo "exit=$?"; sed -n 2p /tmp/c03-3.hex
echo "== equ_shadows_label.asm  expected record data: 00000000FECF0000FEDF"
$B -s equ_shadows_label.asm -o /tmp/c03-3.hex >/dev/null; echo "exit=$?"; sed -n 2p /tmp/c03-3.hex
