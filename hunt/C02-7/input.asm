.equ foo = 5
 nop
foo: nop       ; label foo is at word 1
 .dw foo       ; emits 5
