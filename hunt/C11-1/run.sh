#!/bin/sh
# usage: ./run.sh /path/to/avra-rs
BIN="${1:-/tmp/hunt-wt-5-target/debug/avra-rs}"
cd "$(dirname "$0")" || exit 2
HERE="$(pwd)"
echo "== flat reference (ret, nop)"; "$BIN" -s flat/main.asm -o /tmp/c11_1_flat.hex; cat /tmp/c11_1_flat.hex
cd elsewhere
for p in proj proj2 proj3; do
  echo "== $p/main.asm built from another working directory"; "$BIN" -s "$HERE/$p/main.asm" -o /tmp/c11_1.hex; echo "exit=$?"; [ -f /tmp/c11_1.hex ] && cat /tmp/c11_1.hex; rm -f /tmp/c11_1.hex
done
echo "== proj/main.asm built with the working directory = proj (works, because the path as written happens to exist)"
cd "$HERE/proj" && "$BIN" -s main.asm -o /tmp/c11_1.hex; echo "exit=$?"; cat /tmp/c11_1.hex; rm -f /tmp/c11_1.hex /tmp/c11_1_flat.hex
echo "EXPECTED: proj and proj2 build to ret,nop (08 95 00 00), proj3 to ret,ret,nop; OBSERVED: 'Cannot read file defaults.inc because: No such file or directory' although the file is in the directory of the including file (proj, proj3/sub) or in an .includepath directory that found first.inc a line earlier (proj2)"
