.macro load_defaults
.include "defaults.inc"
.endmacro
 load_defaults
 nop
