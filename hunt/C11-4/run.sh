#!/bin/sh
# usage: ./run.sh /path/to/avra-rs
BIN="${1:-/tmp/hunt-wt-5-target/debug/avra-rs}"
cd "$(dirname "$0")" || exit 2
HERE="$(pwd)"
echo "== built from a working directory that has no entry called defs.inc"; cd "$HERE/other"; "$BIN" -s "$HERE/proj/main.asm" -o /tmp/c11_4.hex; echo "exit=$?"; [ -f /tmp/c11_4.hex ] && cat /tmp/c11_4.hex; rm -f /tmp/c11_4.hex
echo "== built from a working directory that contains a DIRECTORY called defs.inc"; cd "$HERE/work"; "$BIN" -s "$HERE/proj/main.asm" -o /tmp/c11_4.hex; echo "exit=$?"; [ -f /tmp/c11_4.hex ] && cat /tmp/c11_4.hex; rm -f /tmp/c11_4.hex
echo "== proj2: .include \"inc\" where inc is only a directory (file found nowhere)"; cd "$HERE"; "$BIN" -s proj2/main.asm -o /tmp/c11_4.hex; echo "exit=$?"; rm -f /tmp/c11_4.hex
echo "EXPECTED: both runs find proj/defs.inc (07 e0); OBSERVED: second run fails with 'Is a directory (os error 21)', which does not name the file either; proj2 should fail with a message naming inc but prints only 'Is a directory (os error 21)'"
