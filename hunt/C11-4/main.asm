.include "defs.inc"
 ldi r16, A
