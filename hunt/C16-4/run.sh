#!/bin/sh
# usage: run.sh /path/to/avra-rs
BIN=${1:-/tmp/hunt-wt-8-target/debug/avra-rs}
D=$(cd "$(dirname "$0")" && pwd)
T=$(mktemp -d)
echo "one line of 63 KB: 'nop ' followed by 21000 x '/* '"
( time timeout 600 $BIN -s $D/slash_star.asm -o $T/o.hex; echo "exit=$?" )
echo "observed: ~50 s (debug build) before the error 'expression nested too deeply or too long'; time grows with the square of the line length"
rm -rf $T
