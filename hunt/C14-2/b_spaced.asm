.equ mask = 0x0f
        ldi r16, - 1
        ldi r17, ~ mask & 0xff
        ldi r18, ! 0
        subi r19, - (1+2)
        .dw - 2, 3 - - 1
