#!/bin/sh
BIN=${1:-/tmp/hunt-wt-1-target/debug/avra-rs}
D=$(dirname "$0")
for f in a_tight b_spaced; do
  echo "== $f =="; $BIN -s $D/$f.asm -o /tmp/hunt_c14_2_$f.hex -v; echo "exit=$?"; cat /tmp/hunt_c14_2_$f.hex 2>/dev/null; rm -f /tmp/hunt_c14_2_$f.hex
done
echo "expected: identical output; observed: b_spaced fails to parse (each of its lines 2-6 fails on its own)"
