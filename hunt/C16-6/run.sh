#!/bin/sh
# usage: run.sh /path/to/avra-rs
BIN=${1:-/tmp/hunt-wt-8-target/debug/avra-rs}
D=$(cd "$(dirname "$0")" && pwd)
T=$(mktemp -d)
echo "== .include \"/dev/zero\" with the address space capped at 2 GB (without the cap it reads until the machine is out of memory)"
( ulimit -v 2000000; /usr/bin/time -f "%es, max RSS %M KB" $BIN -s $D/devzero.asm -o $T/a.hex; echo "exit=$?" )
echo "== .include \"/dev/stdin\" with a stdin that never delivers: blocks for ever (killed after 10 s)"
( sleep 30 | timeout 10 $BIN -s $D/devstdin.asm -o $T/b.hex; echo "exit=$? (124 = killed by timeout)" )
rm -rf $T
