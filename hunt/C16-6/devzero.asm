.include "/dev/zero"
