.include "/dev/stdin"
