; control: the same size written as a literal is diagnosed
.device ATtiny13
.dseg
buf: .byte 65
