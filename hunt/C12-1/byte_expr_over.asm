; ATtiny13 has 64 bytes of RAM and 64 bytes of EEPROM
.device ATtiny13
.equ BUFSIZE = 65
.dseg
buf:  .byte BUFSIZE      ; 65 bytes: one more than the device has
more: .byte 2*40         ; 80 more
neg:  .byte -1           ; nonsense size, not diagnosed either
.eseg
ebuf: .byte 32+33        ; 65 bytes of EEPROM: one more than the device has
.cseg
      .dw buf, more      ; both labels get the same address 0x60
