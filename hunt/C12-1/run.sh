#!/bin/bash
# usage: run.sh /path/to/avra-rs
B=${1:-/tmp/hunt-wt-3-target/debug/avra-rs}
cd "$(dirname "$0")"
echo "== byte_expr_over.asm (expected: RAM/EEPROM overflow error; observed: builds, RAM 0 bytes)"
$B -v -s byte_expr_over.asm -o /tmp/c12-1.hex -e /tmp/c12-1.eep.hex; echo "exit=$?"; cat /tmp/c12-1.hex
echo "== byte_literal_over.asm (control: literal size is diagnosed)"
$B -v -s byte_literal_over.asm -o /tmp/c12-1b.hex; echo "exit=$?"
