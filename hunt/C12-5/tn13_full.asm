; uses the shipped part-definition file of ATtiny13 and fills its memories exactly
; (PROG_FLASH 1024 bytes = 512 words, EEPROM 64, INT_SRAM 64 at 0x60)
.include "tn13def.inc"
.dseg
buf: .byte 64
.eseg
ee:  .byte 64
.cseg
.org FLASHEND
     nop
