#!/bin/bash
# usage: run.sh /path/to/avra-rs [/path/to/repo/includes]
B=${1:-/tmp/hunt-wt-3-target/debug/avra-rs}
INC=${2:-/tmp/hunt-wt-3/includes}
cd "$(dirname "$0")"
echo "== tn13_full.asm (includes the shipped tn13def.inc copied next to it)"
$B -v -s tn13_full.asm -o /tmp/c12-5.hex -e /tmp/c12-5.eep.hex | cut -c1-200; echo "exit=${PIPESTATUS[0]}"
echo "== control tn13_full_nofile.asm"
$B -v -s tn13_full_nofile.asm -o /tmp/c12-5.hex -e /tmp/c12-5.eep.hex | cut -c1-200; echo "exit=${PIPESTATUS[0]}"
echo "== every shipped *def.inc, included on its own (only failures are listed)"
for f in $INC/*def.inc; do
  printf '.include "%s"\n nop\n' "$f" > /tmp/c12-5-inc.asm
  out=$($B -s /tmp/c12-5-inc.asm -o /tmp/c12-5.hex 2>&1); st=$?
  [ $st -ne 0 ] && echo "$(basename $f): exit=$st $(echo "$out" | cut -c1-110)"
done
true
