; control: the same program with .device instead of the shipped file builds
.device ATtiny13
.dseg
buf: .byte 64
.eseg
ee:  .byte 64
.cseg
.org 0x1ff
     nop
