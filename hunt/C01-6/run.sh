#!/bin/sh
BIN=${1:-/tmp/hunt-wt-1-target/debug/avra-rs}
D=$(dirname "$0")
for f in control_low_register_only pair_syntax; do
  echo "== $f =="; $BIN -s $D/$f.asm -o /tmp/hunt_c01_6_$f.hex; echo "exit=$?"; cat /tmp/hunt_c01_6_$f.hex 2>/dev/null; rm -f /tmp/hunt_c01_6_$f.hex
done
echo "expected: both 8001 0196 DF97; observed: pair_syntax fails to parse"
