; register-pair spelling used by the AVR Instruction Set Manual itself:
;   MOVW Rd+1:Rd,Rr+1:Rr   example "movw r17:r16,r1:r0"
;   ADIW Rd+1:Rd,K         example "adiw r25:r24,1"
        movw r17:r16, r1:r0     ; expected 0x0180
        adiw r25:r24, 1         ; expected 0x9601
        sbiw r27:r26, 63        ; expected 0x97DF
