        movw r16, r0
        adiw r24, 1
        sbiw r26, 63
