        ld r5, Y+3
