#!/bin/bash
# usage: run.sh [path-to-avra-rs]
BIN=${1:-/tmp/hunt-wt-4-target/debug/avra-rs}
cd "$(dirname "$0")"
T=$(mktemp -d)
for f in in*.asm ctl_ldd_rejected.asm; do
  cp $f $T/p.asm; rm -f $T/p.hex
  msg=$("$BIN" -s $T/p.asm 2>&1 | grep -v 'Nothing to write of eeprom' | sed "s#$T/##"); rc=$?
  data=$( [ -f $T/p.hex ] && sed -n 2p $T/p.hex | tr -d '\r' | cut -c10-13 )
  echo "$f: $(tr '\n' ';' < $f | tr -s ' ') -> flash bytes(le)=${data:-none} $msg"
done
echo "expected: every in*.asm fails (LD/ST have no displacement form; on ATtiny11/AT90S1200 LDD/STD do not exist at all - see ctl_ldd_rejected.asm)"
rm -rf $T
