        ld r16, Z+63
