        st Z+3, r5
