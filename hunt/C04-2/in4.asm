        .device ATtiny11
        ld r0, Z+1
