        .device AT90S1200
        st Z+63, r0
