        .device ATtiny11
        ldd r0, Z+1
