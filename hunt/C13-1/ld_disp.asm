.device AT90S1200
        ld  r16, Z+2    ; assembles to 0x8102 = LDD r16, Z+2
        st  Z+63, r11   ; assembles to 0xAEB7 = STD Z+63, r11
