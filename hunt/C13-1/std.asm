.device AT90S1200
        std Z+63, r11
