.device AT90S1200
        ldd r16, Z+2
