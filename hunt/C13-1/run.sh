#!/bin/sh
# usage: run.sh /path/to/avra-rs
# AT90S1200 carries the Tiny1x flag (no LDD/STD ...). `ldd r16, Z+2` is rejected, but the same machine instruction
# spelled `ld r16, Z+2` (and `st Z+63, r11` for STD) is assembled.  Same for ATtiny10/11/12/15/28.
B=${1:-/tmp/hunt-wt-7-target/debug/avra-rs}
D=$(cd "$(dirname "$0")" && pwd)
T=$(mktemp -d)
cp "$D"/*.asm "$T/"
"$B" -s "$T/ldd.asm" -o "$T/ldd.hex"; echo "exit status (ldd r16, Z+2): $?   <- rejected, as the property demands"
"$B" -s "$T/std.asm" -o "$T/std.hex"; echo "exit status (std Z+63, r11): $?   <- rejected, as the property demands"
"$B" -s "$T/ld_disp.asm" -o "$T/ld_disp.hex"; rc=$?; echo "exit status (ld r16, Z+2 / st Z+63, r11): $rc"
cat "$T/ld_disp.hex" 2>/dev/null
# data record holds 02 81 (0x8102 = LDD r16,Z+2) and B7 AE (0xAEB7 = STD Z+63,r11)
if [ $rc -eq 0 ] && grep -q '^:040000000281B7AE' "$T/ld_disp.hex"; then echo "VIOLATION: LDD/STD opcodes emitted for a device without LDD/STD"; exit 1; fi
echo "no violation"; exit 0
