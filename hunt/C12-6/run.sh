#!/bin/bash
B=${1:-/tmp/hunt-wt-3-target/debug/avra-rs}
cd "$(dirname "$0")"
$B -v -s m64.asm -o /tmp/c12-6.hex -e /tmp/c12-6.eep.hex; echo "exit=$?"
