; ATmega64 through the shipped part-definition file (PROG_FLASH 65536 bytes, EEPROM 2048, INT_SRAM 4096 at 0x100)
.include "m64def.inc"
    nop
