#!/bin/sh
# usage: ./run.sh /path/to/avra-rs
BIN="${1:-/tmp/hunt-wt-5-target/debug/avra-rs}"
cd "$(dirname "$0")" || exit 2
HERE="$(pwd)"
for f in neg_sym neg_sym2 neg_sym3 control_paren control_dq; do
  echo "== $f.asm"; "$BIN" -s $f.asm -o $f.hex; echo "exit=$?"; [ -f $f.hex ] && cat $f.hex; rm -f $f.hex
done
echo "EXPECTED: neg_sym -> 0b ef (ldi r16,0xFB), neg_sym2 -> 00 50 (subi r16,0), neg_sym3 -> 02 e0; OBSERVED: all three fail to parse, while (-xval) and .dq -xval work"
