.equ yy = 1
 ldi r16, -yy+3
