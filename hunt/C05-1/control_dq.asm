.equ xval = 5
 .dq -xval
