.equ xval = 5
.equ zero = 0
.equ yy = 1
 ldi r16, -xval
