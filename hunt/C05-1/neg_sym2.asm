.equ zero = 0
 subi r16, -zero
