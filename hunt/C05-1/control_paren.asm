.equ xval = 5
 ldi r16, (-xval)
