        nop /* one line */
/* comment-only
   lines */
        ret
