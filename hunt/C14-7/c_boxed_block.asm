        nop /* one line */
/*
 * boxed comment
 */
        ret
