#!/bin/sh
BIN=${1:-/tmp/hunt-wt-1-target/debug/avra-rs}
D=$(dirname "$0")
for f in a_single_line_blocks b_two_line_block c_boxed_block; do
  echo "== $f =="; $BIN -s $D/$f.asm -o /tmp/hunt_c14_7_$f.hex -v; echo "exit=$?"; cat /tmp/hunt_c14_7_$f.hex 2>/dev/null; rm -f /tmp/hunt_c14_7_$f.hex
done
echo "expected: identical images (0000 0895); observed: b and c fail to parse line 2"
