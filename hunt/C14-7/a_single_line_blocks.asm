        nop /* one line */
/* comment-only line */
        ret
