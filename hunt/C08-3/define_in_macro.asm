.macro once
.define DONE
 nop
.endm
 once           ; expands to: .define DONE / nop
.ifdef DONE
 ret            ; expected: DONE was defined by the line above
.else
 sleep
.endif
