#!/bin/sh
# usage: run.sh /path/to/avra-rs
BIN=${1:-/tmp/hunt-wt-8-target/debug/avra-rs}
D=$(cd "$(dirname "$0")" && pwd)
T=$(mktemp -d)
for f in define_after_call define_in_macro; do
  echo "== $f.asm"
  $BIN -s $D/$f.asm -o $T/$f.hex; echo "exit=$?"; cat $T/$f.hex 2>/dev/null
done
echo "expected: define_after_call -> 0895 (ret);      observed 0000 (nop: the .ifdef arm, FOO is only defined AFTER the call)"
echo "expected: define_in_macro   -> 0000 0895 (nop, ret); observed 0000 8895 (nop, sleep: the .else arm although DONE was defined by the expansion above)"
rm -rf $T
