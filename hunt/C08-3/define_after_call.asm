.macro m
.ifdef FOO
 nop            ; FOO defined
.else
 ret            ; FOO not defined
.endif
.endm
 m              ; FOO is not defined here -> expected ret
.define FOO
