.if 0
 nop
 ret
.endif
 sleep
