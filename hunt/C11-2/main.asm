.include "f.inc"
 ret
.endif
 sleep
