#!/bin/sh
# usage: ./run.sh /path/to/avra-rs
BIN="${1:-/tmp/hunt-wt-5-target/debug/avra-rs}"
cd "$(dirname "$0")" || exit 2
HERE="$(pwd)"
for d in a b c; do
  echo "== $d: split over main.asm + include"; "$BIN" -s $d/main.asm -o /tmp/c11_2.hex; echo "exit=$?"; [ -f /tmp/c11_2.hex ] && cat /tmp/c11_2.hex; rm -f /tmp/c11_2.hex
  echo "== $d: same lines pasted (flat.asm)"; "$BIN" -s $d/flat.asm -o /tmp/c11_2.hex; echo "exit=$?"; [ -f /tmp/c11_2.hex ] && cat /tmp/c11_2.hex; rm -f /tmp/c11_2.hex
done
echo "EXPECTED: split == flat in all three; OBSERVED: a: split 08958895 vs flat 8895; b: split 000008958895 vs flat 00000895; c: split 01e002e0 vs flat 01e0"
