#!/bin/bash
# usage: run.sh /path/to/avra-rs
BIN=${1:-/tmp/hunt-wt-6-target/debug/avra-rs}
cd "$(dirname "$0")"
for f in narrower_widths_control dq_umax dq_umax_dec dq_2p63 dq_imin; do
  rm -f $f.hex
  "$BIN" -s $f.asm -o $f.hex -e $f.eep.hex | cut -c1-220; echo "$f rc=${PIPESTATUS[0]}"
  [ -f $f.hex ] && sed 's/^/    /' $f.hex
done
echo "EXPECTED: .dq accepts the whole unsigned (0..2^64-1) and signed (-2^63..) range like .db/.dw/.dd do for their widths: FF FF FF FF FF FF FF FF, 00 .. 00 80"
echo "OBSERVED: all four .dq inputs fail with a parse error ('number that fits 64 bits')."
