.equ a0 = 1
.equ a1 = a0+a0
.equ a2 = a1+a1
.equ a3 = a2+a2
.equ a4 = a3+a3
.equ a5 = a4+a4
.equ a6 = a5+a5
.equ a7 = a6+a6
.equ a8 = a7+a7
.equ a9 = a8+a8
.equ a10 = a9+a9
.equ a11 = a10+a10
.equ a12 = a11+a11
.equ a13 = a12+a12
.equ a14 = a13+a13
.equ a15 = a14+a14
.dq a15
