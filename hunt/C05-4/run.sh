#!/bin/sh
# usage: ./run.sh /path/to/avra-rs
BIN="${1:-/tmp/hunt-wt-5-target/debug/avra-rs}"
cd "$(dirname "$0")" || exit 2
HERE="$(pwd)"
for f in sum129 sum130 equ_chain64 equ_chain70 doubling15; do
  echo "== $f.asm"; "$BIN" -s $f.asm -o $f.hex; echo "exit=$?"; [ -f $f.hex ] && cat $f.hex; rm -f $f.hex
done
echo "EXPECTED: sum130 -> 130, ID_70 -> 70 (ldi r16,70 = 06 e4), a15 -> 32768"
echo "OBSERVED: sum129 and ID_64 work; sum130, ID_70 fail with 'expression nested too deeply (definition that refers to itself?)'; a15 fails with 'expression takes too many steps'"
