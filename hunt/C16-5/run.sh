#!/bin/sh
# usage: run.sh /path/to/avra-rs
BIN=${1:-/tmp/hunt-wt-8-target/debug/avra-rs}
D=$(cd "$(dirname "$0")" && pwd)
T=$(mktemp -d)
echo "== control: 64 plain parentheses (the documented maximum), 2 MiB stack"
( ulimit -s 2048; $BIN -s $D/plain64.asm -o $T/a.hex; echo "exit=$?" )
echo "== deep.asm (1.1 KB line, passes the nesting guard), 2 MiB stack (= default stack of a Rust thread)"
( ulimit -s 2048; $BIN -s $D/deep.asm -o $T/b.hex; echo "exit=$?" )
echo "== deep.asm, default 8 MiB main-thread stack"
( $BIN -s $D/deep.asm -o $T/c.hex; echo "exit=$?" )
echo "observed: with a 2 MiB stack 'fatal runtime error: stack overflow' + SIGABRT (134); the line needs between 3 and 4 MiB of stack in a debug build. With 8 MiB it is answered with an ordinary error."
rm -rf $T
