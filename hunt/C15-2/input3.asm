 nop
.if 0
 nop
.elif 1 ]
 ldi r16, 1
.endif
 ldi r17, 2
