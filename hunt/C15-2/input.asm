 nop
.if 0
 nop
.endif ]
 ldi r16, 1
 ldi r17, 2
.error "never reached"
