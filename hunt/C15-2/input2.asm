 nop
.macro m
 nop
.endm ]
 ldi r16, 1
.error "never reached"
