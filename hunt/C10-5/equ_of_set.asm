; .equ referencing .set lazily
.set s = 1
.equ e = s
.set s = 2
	ldi r16, e
	ldi r17, s
