; equ defined from set before any assignment
.equ e = s
	nop
.set s = 3
	ldi r16, e
