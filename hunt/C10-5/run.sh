#!/bin/bash
# usage: run.sh /path/to/avra-rs
B=${1:-/tmp/hunt-wt-9-target/debug/avra-rs}
cd "$(dirname "$0")"
echo "== equ_of_set.asm"; rm -f equ_of_set.hex equ_of_set.eep.hex; $B -s equ_of_set.asm -o equ_of_set.hex -e equ_of_set.eep.hex; echo "exit=$?"; [ -f equ_of_set.hex ] && cat equ_of_set.hex; [ -f equ_of_set.eep.hex ] && { echo '-- eeprom'; cat equ_of_set.eep.hex; }
echo "== equ_of_later_set.asm"; rm -f equ_of_later_set.hex equ_of_later_set.eep.hex; $B -s equ_of_later_set.asm -o equ_of_later_set.hex -e equ_of_later_set.eep.hex; echo "exit=$?"; [ -f equ_of_later_set.hex ] && cat equ_of_later_set.hex; [ -f equ_of_later_set.eep.hex ] && { echo '-- eeprom'; cat equ_of_later_set.eep.hex; }
echo "== equ_of_pc.asm"; rm -f equ_of_pc.hex equ_of_pc.eep.hex; $B -s equ_of_pc.asm -o equ_of_pc.hex -e equ_of_pc.eep.hex; echo "exit=$?"; [ -f equ_of_pc.hex ] && cat equ_of_pc.hex; [ -f equ_of_pc.eep.hex ] && { echo '-- eeprom'; cat equ_of_pc.eep.hex; }
