; lazy equ with pc: expect here=1 -> ldi r16,1 (01E0)
	nop
.equ here = pc
	nop
	nop
	ldi r16, here
