.macro toeeprom
.eseg
.endm
 nop
 toeeprom
e: .db 1,2,3   ; expected: EEPROM image 01 02 03, e = 0
.cseg
 .dw e
