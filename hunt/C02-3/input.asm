.macro at
.org @0
.endm
 nop
 at 0x20
x: nop
 .dw x        ; expected 0x0020, emitted at word 0x21
