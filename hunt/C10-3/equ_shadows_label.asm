; equ and label same name
.equ foo = 0x55
	nop
foo:	nop
	ldi r16, foo
	rjmp foo
