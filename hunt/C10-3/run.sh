#!/bin/bash
# usage: run.sh /path/to/avra-rs
B=${1:-/tmp/hunt-wt-9-target/debug/avra-rs}
cd "$(dirname "$0")"
echo "== equ_shadows_label.asm"; rm -f equ_shadows_label.hex equ_shadows_label.eep.hex; $B -s equ_shadows_label.asm -o equ_shadows_label.hex -e equ_shadows_label.eep.hex; echo "exit=$?"; [ -f equ_shadows_label.hex ] && cat equ_shadows_label.hex; [ -f equ_shadows_label.eep.hex ] && { echo '-- eeprom'; cat equ_shadows_label.eep.hex; }
