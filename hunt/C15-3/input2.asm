.dseg
a: .byte -1          ; out of range
.cseg
 nop
