.dseg
a: .byte nosuch      ; undefined symbol
.cseg
 nop
