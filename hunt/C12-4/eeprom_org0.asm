; byte 1 at EEPROM 0x20, byte 2 at EEPROM 0x00
.device ATtiny13
.eseg
.org 0x20
.db 1
.org 0x00
.db 2
