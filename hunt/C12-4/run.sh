#!/bin/bash
B=${1:-/tmp/hunt-wt-3-target/debug/avra-rs}
cd "$(dirname "$0")"
for f in ram_descending ram_ascending flash_org0 flash_descending eeprom_org0; do
  echo "== $f.asm"; rm -f /tmp/c12-4.hex /tmp/c12-4.eep.hex; $B -v -s $f.asm -o /tmp/c12-4.hex -e /tmp/c12-4.eep.hex | grep -v "Nothing to"; echo "exit=${PIPESTATUS[0]}"
done
echo "eeprom image of eeprom_org0.asm (byte 2 ends up at 0x21, not 0x00):"; cat /tmp/c12-4.eep.hex
