; control: the same two blocks in ascending order build, RAM 64 of 64
.device ATtiny13
.dseg
.org 0x60
lo: .byte 32
.org 0x80
hi: .byte 32
