; two blocks of 32 bytes fill the 64 bytes of RAM of ATtiny13 (0x60..0x9f) exactly; they do not overlap
.device ATtiny13
.dseg
.org 0x80
hi: .byte 32
.org 0x60
lo: .byte 32
