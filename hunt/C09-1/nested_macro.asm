.macro to_data
.dseg
.endm
.macro var
	to_data
@0:	.byte 1
.cseg
.endm
	nop
	var q
	lds r16, q
