	nop
.org 0x8
	nop

