	nop
.dseg
v:	.byte 2
.cseg
	lds r16, v
