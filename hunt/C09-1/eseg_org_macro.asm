.macro ee
.eseg
.org @0
.endm
	nop
	ee 0x10
	.db 1,2
.cseg
	nop
