	nop
.eseg
.org 0x10
	.db 1,2
.cseg
	nop

