	nop
.dseg
q:	.byte 1
.cseg
	lds r16, q

