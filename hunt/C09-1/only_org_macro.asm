.macro org_at
.org @0
.endm
	nop
	org_at 0x8
	nop
