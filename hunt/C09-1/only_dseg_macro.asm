.macro to_data
.dseg
.endm
	nop
	to_data
v:	.byte 2
.cseg
	lds r16, v
