# writes cubic.asm (~56 KB) and cubic_one_call.asm (~52 KB, the same with ONE call instead of 2000)
def mk(L,K,N,name):
    a='.macro a\n'+';\n'*L+'.endm\n'                       # L body lines that are only a comment
    b='.macro b\na '+','.join(['1']*K)+'\n.endm\n'           # calls a with K operands
    open(name,'w').write(a+b+'b\n'*N)
mk(16000,10000,1,'cubic_one_call.asm')
mk(16000,10000,2000,'cubic.asm')
