#!/bin/sh
# usage: run.sh /path/to/avra-rs
BIN=${1:-/tmp/hunt-wt-8-target/debug/avra-rs}
D=$(cd "$(dirname "$0")" && pwd)
T=$(mktemp -d)
[ -f $D/cubic.asm ] || (cd $D && python3 gen.py)
echo "one call of b (52 KB source): about a minute in a debug build"
( time timeout 600 $BIN -s $D/cubic_one_call.asm -o $T/o.hex; echo "exit=$?" )
echo "2000 calls of b (56 KB source, 4000 macro expansions in all, no output, ~7 MB of memory): 2000 x the above = more than a day; cut off after 3 minutes"
( time timeout 180 $BIN -s $D/cubic.asm -o $T/o.hex; echo "exit=$? (124 = still running when killed)" )
rm -rf $T
