; same program for ATtiny20 (control): assembles to A100 AB1F
.device ATtiny20
        lds r16, 0x40
        sts 0x5f, r17
