; ATtiny10 is a reduced-core (AVR8L) part: lds/sts exist only in the one-word form
; 1010 0kkk dddd kkkk / 1010 1kkk dddd kkkk
.device ATtiny10
        lds r16, 0x40      ; expected word 0xA100
        sts 0x5f, r17      ; expected word 0xAB1F
