#!/bin/sh
# usage: run.sh /path/to/avra-rs
BIN=${1:-/tmp/hunt-wt-1-target/debug/avra-rs}
D=$(dirname "$0")
echo "== ATtiny20 (control, works) =="
$BIN -s $D/tiny20_lds.asm -o /tmp/hunt_c01_1_t20.hex; echo "exit=$?"; cat /tmp/hunt_c01_1_t20.hex
echo "== ATtiny10 (expected the same two words 00A1 1FAB, exit 0) =="
$BIN -s $D/tiny10_lds.asm -o /tmp/hunt_c01_1_t10.hex; echo "exit=$?"; cat /tmp/hunt_c01_1_t10.hex 2>/dev/null
rm -f /tmp/hunt_c01_*.hex
