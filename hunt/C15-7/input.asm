 nop
 nop
.org 1
 nop
