.device ATtiny13
 nop
.org 0x1000
 nop
