        .device AT90S1200
        st -Z, r0
