#!/bin/bash
# usage: run.sh [path-to-avra-rs]
BIN=${1:-/tmp/hunt-wt-4-target/debug/avra-rs}
cd "$(dirname "$0")"
T=$(mktemp -d)
for f in in1.asm in2.asm ctl_x_rejected.asm; do
  cp $f $T/p.asm; rm -f $T/p.hex
  "$BIN" -s $T/p.asm 2>&1 | grep -v 'Nothing to write of eeprom' | sed "s#$T/##"
  echo "$f: $(sed -n 2p $f | tr -s ' ') -> exit=${PIPESTATUS[0]} bytes(le)=$( [ -f $T/p.hex ] && sed -n 2p $T/p.hex | tr -d '\r' | cut -c10-13 || echo none)"
done
echo "expected: in1/in2 fail - AT90S1200 / ATtiny11/12/15/28 implement only 'LD Rd,Z' and 'ST Z,Rr' (no post-increment / pre-decrement addressing)"
rm -rf $T
