#!/bin/bash
# usage: run.sh /path/to/avra-rs
B=${1:-/tmp/hunt-wt-9-target/debug/avra-rs}
cd "$(dirname "$0")"
echo "== unused_equ_undefined.asm"; rm -f unused_equ_undefined.hex unused_equ_undefined.eep.hex; $B -s unused_equ_undefined.asm -o unused_equ_undefined.hex -e unused_equ_undefined.eep.hex; echo "exit=$?"; [ -f unused_equ_undefined.hex ] && cat unused_equ_undefined.hex; [ -f unused_equ_undefined.eep.hex ] && { echo '-- eeprom'; cat unused_equ_undefined.eep.hex; }
