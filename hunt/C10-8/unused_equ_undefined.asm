; undefined in unused .equ
.equ a = nosuch + 1
	nop
