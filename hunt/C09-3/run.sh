#!/bin/bash
# usage: run.sh /path/to/avra-rs
B=${1:-/tmp/hunt-wt-9-target/debug/avra-rs}
cd "$(dirname "$0")"
echo "== chain_macro.asm"; rm -f chain_macro.hex chain_macro.eep.hex; $B -s chain_macro.asm -o chain_macro.hex -e chain_macro.eep.hex; echo "exit=$?"; [ -f chain_macro.hex ] && cat chain_macro.hex; [ -f chain_macro.eep.hex ] && { echo '-- eeprom'; cat chain_macro.eep.hex; }
echo "== chain_inline.asm"; rm -f chain_inline.hex chain_inline.eep.hex; $B -s chain_inline.asm -o chain_inline.hex -e chain_inline.eep.hex; echo "exit=$?"; [ -f chain_inline.hex ] && cat chain_inline.hex; [ -f chain_inline.eep.hex ] && { echo '-- eeprom'; cat chain_inline.eep.hex; }
