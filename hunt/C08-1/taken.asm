; control: the same text with the branch selected assembles fine
.if 1
.macro m
.if @0 == 1
 nop
.endif
.endm
.endif
 ret
 m 1
