#!/bin/sh
# usage: run.sh /path/to/avra-rs
BIN=${1:-/tmp/hunt-wt-8-target/debug/avra-rs}
D=$(cd "$(dirname "$0")" && pwd)
T=$(mktemp -d)
for f in untaken reference taken; do
  echo "== $f.asm"
  $BIN -s $D/$f.asm -o $T/$f.hex; echo "exit=$?"; cat $T/$f.hex 2>/dev/null
done
echo "expected: untaken.asm builds to the same image as reference.asm (one word 9508 = ret, exit 0)"
echo "observed: untaken.asm fails with 'Unsupported directive endm in code segment, line: 7'"
rm -rf $T
