; the macro definition sits in a branch that is not selected
.if 0
.macro m
.if @0 == 1
 nop
.endif
.endm
.endif
 ret
