; untaken.asm with the unselected lines (and the directives of the construct) deleted







 ret
