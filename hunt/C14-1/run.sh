#!/bin/sh
BIN=${1:-/tmp/hunt-wt-1-target/debug/avra-rs}
D=$(dirname "$0")
for f in a_upper b_lower_ref c_lower_ref_expr; do
  echo "== $f =="; $BIN -s $D/$f.asm -o /tmp/hunt_c14_1_$f.hex -v; echo "exit=$?"; cat /tmp/hunt_c14_1_$f.hex 2>/dev/null
  rm -f /tmp/hunt_c14_1_$f.hex
done
echo "expected: all three identical (01E010E0); observed: b gives 02E010E0 silently, c fails"
