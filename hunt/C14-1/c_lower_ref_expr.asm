#define DEBUG
.ifdef DEBUG
        ldi r16, 1
.else
        ldi r16, 2
.endif
        ldi r17, debug
