; unary minus in front of a symbol whose name starts with x, y or z (any case)
.equ zero_off = 1
.equ Yoff = 2
        ldi r16, -zero_off    ; expected 0xEF0F
        subi r17, -Yoff       ; expected 0x5F1E
