#!/bin/sh
BIN=${1:-/tmp/hunt-wt-1-target/debug/avra-rs}
D=$(dirname "$0")
echo "== control =="; $BIN -s $D/negsym_ctl.asm -o /tmp/hunt_c01_5a.hex; echo "exit=$?"; cat /tmp/hunt_c01_5a.hex
echo "== -sym (expected identical output) =="; $BIN -s $D/negsym.asm -o /tmp/hunt_c01_5b.hex; echo "exit=$?"; cat /tmp/hunt_c01_5b.hex 2>/dev/null
rm -f /tmp/hunt_c01_*.hex
