; control: 0-sym instead of -sym: assembles to 0FEF 1E5F
.equ zero_off = 1
.equ Yoff = 2
        ldi r16, 0-zero_off
        subi r17, 0-Yoff
