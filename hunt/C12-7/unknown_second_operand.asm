.device ATtiny13 NoSuchPart
 nop
