.device ATtiny13, ATmega8
 nop
