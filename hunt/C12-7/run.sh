#!/bin/bash
B=${1:-/tmp/hunt-wt-3-target/debug/avra-rs}
cd "$(dirname "$0")"
for f in two_devices_one_line unknown_second_operand control_two_lines; do echo "== $f.asm"; $B -v -s $f.asm -o /tmp/c12-7.hex | cut -c1-160; echo "exit=${PIPESTATUS[0]}"; done
