.device ATtiny13
.device ATmega8
 nop
