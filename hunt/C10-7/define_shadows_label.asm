#define start
	nop
	nop
start:	nop
	rjmp start
	ldi r16, start
