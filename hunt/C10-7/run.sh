#!/bin/bash
# usage: run.sh /path/to/avra-rs
B=${1:-/tmp/hunt-wt-9-target/debug/avra-rs}
cd "$(dirname "$0")"
echo "== define_shadows_equ.asm"; rm -f define_shadows_equ.hex define_shadows_equ.eep.hex; $B -s define_shadows_equ.asm -o define_shadows_equ.hex -e define_shadows_equ.eep.hex; echo "exit=$?"; [ -f define_shadows_equ.hex ] && cat define_shadows_equ.hex; [ -f define_shadows_equ.eep.hex ] && { echo '-- eeprom'; cat define_shadows_equ.eep.hex; }
echo "== define_shadows_label.asm"; rm -f define_shadows_label.hex define_shadows_label.eep.hex; $B -s define_shadows_label.asm -o define_shadows_label.hex -e define_shadows_label.eep.hex; echo "exit=$?"; [ -f define_shadows_label.hex ] && cat define_shadows_label.hex; [ -f define_shadows_label.eep.hex ] && { echo '-- eeprom'; cat define_shadows_label.eep.hex; }
