; define shadows equ: expect 03E0
#define FOO
.equ FOO = 3
	ldi r16, FOO
