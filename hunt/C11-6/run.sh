#!/bin/sh
# usage: ./run.sh /path/to/avra-rs
BIN="${1:-/tmp/hunt-wt-5-target/debug/avra-rs}"
cd "$(dirname "$0")" || exit 2
HERE="$(pwd)"
# Build the driver first: cp drv_str.rs <worktree>/examples/ && (cd <worktree> && CARGO_NET_OFFLINE=true CARGO_TARGET_DIR=<target> cargo build --offline --example drv_str)
# needs the library entry point build_str: $1 here is the path of the compiled example drv_str (see drv_str.rs), not the CLI
DRV="${1:-/tmp/hunt-wt-5-target/debug/examples/drv_str}"
cd "$HERE/cwd" && "$DRV" ../src.txt
echo "EXPECTED: working directory is cwd/, so the relative .includepath \"inc\" means cwd/inc -> D = 1 -> code 01 e0; OBSERVED: 02 e0 (the directory inc/ NEXT TO the working directory is used)"
