; builds, but the data segment is put at the code .org address: RAM usage 17 instead of 1, v = 0x70 instead of 0x60
.device ATtiny13
    nop
.org 0x70
.dseg
v:  .byte 1
.cseg
    .dw v
