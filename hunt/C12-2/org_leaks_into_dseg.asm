; 1 byte of RAM is needed; ATtiny13 has 64 (0x60..0x9f)
.device ATtiny13
.cseg
.org 0x1ff          ; nothing is placed here before the segment switch
.dseg
v:  .byte 1
