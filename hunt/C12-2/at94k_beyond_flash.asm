; AT94K: flash 8192 words (0..0x1fff). The nop is asked for at 0x2000: one word beyond the flash
.device AT94K
.org 0x2000
.dseg
foo: .byte 1
.cseg
    nop
