#!/bin/bash
B=${1:-/tmp/hunt-wt-3-target/debug/avra-rs}
cd "$(dirname "$0")"
for f in org_leaks_into_dseg org_leaks_into_dseg_report dseg_org_leaks_into_cseg at94k_beyond_flash; do
  echo "== $f.asm"; rm -f /tmp/c12-2.hex; $B -v -s $f.asm -o /tmp/c12-2.hex -e /tmp/c12-2.eep.hex | grep -v "Nothing to"; echo "exit=${PIPESTATUS[0]}"; [ -f /tmp/c12-2.hex ] && head -2 /tmp/c12-2.hex
done
