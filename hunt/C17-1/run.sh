#!/bin/bash
# usage: run.sh /path/to/avra-rs [/path/to/examples/c17one]
# The CLI runs the build on the main thread (8 MiB stack by default). A Rust thread spawned with
# std::thread::spawn has 2 MiB. `ulimit -s 2048` gives the CLI's main thread the stack of such a thread.
BIN=${1:-/tmp/hunt-wt-6-target/debug/avra-rs}
DRV=$2
cd "$(dirname "$0")"
echo "== CLI, default main-thread stack ($(ulimit -s) KiB)"
"$BIN" -s deep_ladder.asm -o a.hex -e a.eep.hex; echo "rc=$?"; cat a.hex 2>/dev/null
echo "== CLI, main-thread stack limited to 2048 KiB (what std::thread::spawn gives a build thread)"
( ulimit -s 2048; "$BIN" -s deep_ladder.asm -o b.hex -e b.eep.hex; echo "rc=$?" )
if [ -n "$DRV" ]; then
  # library-level demonstration: cp c17one.rs <worktree>/examples/ && cargo build --offline --example c17one
  echo "== library, build_file on the main thread";  "$DRV" main file deep_ladder.asm; echo "rc=$?"
  echo "== library, build_file on a std::thread::spawn thread"; "$DRV" thread file deep_ladder.asm; echo "rc=$?"
fi
echo "EXPECTED: the same result (image 07 00) wherever the build runs; OBSERVED: OK on the main thread, 'thread has overflowed its stack / fatal runtime error: stack overflow, aborting' (SIGABRT, whole process dies, concurrent builds in other threads with it) on a 2 MiB thread."
