; body starts with .cseg while call is in dseg with org
.macro code
.cseg
	ldi r16, @0
.dseg
.endm
	nop
.dseg
.org 0x100
a:	.byte 1
	code 5
b:	.byte 1
.cseg
	lds r16, b
