	nop
.dseg
.org 0x100
a:	.byte 1
.cseg
	ldi r16, 5
.dseg
b:	.byte 1
.cseg
	lds r16, b

