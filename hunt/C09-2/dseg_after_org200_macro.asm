.macro m
.dseg
v:	.byte 1
.cseg
	lds r16, v
.endm
.org 0x200
	nop
	m
	nop
