.macro m
.dseg
v:	.byte 1
.cseg
	lds r16, v
.endm
.org 0x10
	nop
	m
	nop
