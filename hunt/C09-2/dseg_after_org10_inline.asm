.org 0x10
	nop
.dseg
v:	.byte 1
.cseg
	lds r16, v
	nop
