#!/bin/sh
# usage: run.sh /path/to/avra-rs
# 
BIN="${1:-/tmp/hunt-wt-2-target/debug/avra-rs}"
cd "$(dirname "$0")"
rm -f out.hex out.eep.hex
"$BIN" -s input.asm -o out.hex -e out.eep.hex -v
echo "exit status: $?"
for f in out.hex out.eep.hex; do [ -f "$f" ] && { echo "--- $f"; cat "$f"; }; done
exit 0
