 nop
 nop
.include "missing.inc"
 nop
