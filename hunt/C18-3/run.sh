#!/bin/bash
# usage: run.sh [path-to-avra-rs]
BIN=${1:-/tmp/hunt-wt-4-target/debug/avra-rs}
HERE="$(cd "$(dirname "$0")" && pwd)"
T=$(mktemp -d); cd $T; cp $HERE/both.asm .
echo "--- -o and -e name the same file"
"$BIN" -s both.asm -o out.hex -e out.hex; echo "exit=$?"; cat out.hex
echo "--- -o names the default EEPROM path (<stem>.eep.hex), no -e"
"$BIN" -s both.asm -o both.eep.hex; echo "exit=$?"; cat both.eep.hex
echo "expected: the -o file decodes to the flash image (E001 CFFE) or the clash is reported with a non-zero exit; observed: exit 0 and the -o file holds only the EEPROM image 01 02 03"
cd /; rm -rf $T
