.dseg
a: .byte 4
b: .byte 4
c: .byte 4
d: .byte 1
.cseg
.dw a, b, c, d
