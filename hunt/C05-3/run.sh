#!/bin/sh
# usage: ./run.sh /path/to/avra-rs
BIN="${1:-/tmp/hunt-wt-5-target/debug/avra-rs}"
cd "$(dirname "$0")" || exit 2
HERE="$(pwd)"
for f in byte_expr byte_lit byte_div0 byte_eseg; do
  echo "== $f.asm"; "$BIN" -s $f.asm -o $f.hex -e $f.eep.hex; echo "exit=$?"; [ -f $f.hex ] && cat $f.hex; [ -f $f.eep.hex ] && cat $f.eep.hex; rm -f $f.hex $f.eep.hex
done
echo "EXPECTED: byte_expr gives the same .dw table as byte_lit (60 00 64 00 68 00 6c 00); byte_div0 fails the build; byte_eseg: b = 2 and the eeprom image is 00 00 07"
echo "OBSERVED: byte_expr -> 60 00 60 00 60 00 60 00 (every .byte with a non-literal expression reserves nothing); byte_div0 builds with exit 0; byte_eseg -> b = 0, eeprom image 07"
