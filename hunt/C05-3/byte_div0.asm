.dseg
a: .byte 1/0
b: .byte -1
c: .byte 9223372036854775807+1
.cseg
 nop
