.eseg
a: .byte 1+1
b: .db 7
.cseg
.dw a, b
