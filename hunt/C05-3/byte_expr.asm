.equ SZ = 4
.dseg
a: .byte SZ
b: .byte 2+2
c: .byte (1<<2)
d: .byte 1
.cseg
.dw a, b, c, d
