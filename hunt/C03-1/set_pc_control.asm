; control: the same with .set gives the expected words
        nop
.set    here = pc
        nop
        nop
        brne here
        rjmp here
.set    ahead = pc + 3
        rcall ahead
        breq ahead
        nop
        nop
