#!/bin/bash
B=${1:-/tmp/hunt-wt-3-target/debug/avra-rs}
cd "$(dirname "$0")"
echo "expected code words at 3..6: e9f7 fccf 02d0 09f0"
for f in equ_pc set_pc_control; do echo "== $f.asm"; $B -s $f.asm -o /tmp/c03-1.hex >/dev/null; echo "exit=$?"; sed -n 2p /tmp/c03-1.hex; done
