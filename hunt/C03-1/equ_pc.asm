; the usual idiom to name a place without a label: .equ <name> = PC
        nop                 ; 0
.equ    here = pc           ; here = 1 (address of the next item)
        nop                 ; 1
        nop                 ; 2
        brne here           ; 3: d must be 1-(3+1) = -3  -> 0xf7e9
        rjmp here           ; 4: d must be 1-(4+1) = -4  -> 0xcffc
.equ    ahead = pc + 3      ; pc = 5 here, ahead = 8
        rcall ahead         ; 5: d must be 8-(5+1) = 2   -> 0xd002
        breq ahead          ; 6: d must be 8-(6+1) = 1   -> 0xf009
        nop                 ; 7
        nop                 ; 8  <- ahead
