.equ FOO = 5
.db FOO, 1
.dw FOO
