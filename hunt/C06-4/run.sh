#!/bin/bash
# usage: run.sh /path/to/avra-rs
BIN=${1:-/tmp/hunt-wt-6-target/debug/avra-rs}
cd "$(dirname "$0")"
for f in equ_control define_value; do
  rm -f $f.hex
  "$BIN" -s $f.asm -o $f.hex -e $f.eep.hex; echo "$f rc=$?"
  [ -f $f.hex ] && sed 's/^/    /' $f.hex
done
echo "EXPECTED: both images 05 01 05 00; OBSERVED: define_value gives 00 01 00 00 (value of the #define silently replaced by 0)."
