.if 1
 nop
lbl: .elif 1
 ret
.endif
lbl: sleep
