#!/bin/sh
# usage: run.sh /path/to/avra-rs
BIN=${1:-/tmp/hunt-wt-8-target/debug/avra-rs}
D=$(cd "$(dirname "$0")" && pwd)
T=$(mktemp -d)
for f in label_endif_taken label_endif_untaken label_elif_not_selected; do
  echo "== $f.asm"
  $BIN -s $D/$f.asm -o $T/$f.hex; echo "exit=$?"; cat $T/$f.hex 2>/dev/null
done
echo "observed: label on '.endif' is defined when the arm before it was assembled, dropped ('Identifier lbl can not be found') when it was skipped;"
echo "          label on an '.elif' line that opens a NOT selected arm is defined all the same ('Identifier lbl is used twice')"
rm -rf $T
