.include "f1.inc"
 nop
