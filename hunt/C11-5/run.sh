#!/bin/sh
# usage: ./run.sh /path/to/avra-rs
BIN="${1:-/tmp/hunt-wt-5-target/debug/avra-rs}"
cd "$(dirname "$0")" || exit 2
HERE="$(pwd)"
echo "== 64 levels of nesting"; "$BIN" -s deep64/main.asm -o /tmp/c11_5.hex; echo "exit=$?"; [ -f /tmp/c11_5.hex ] && cat /tmp/c11_5.hex; rm -f /tmp/c11_5.hex
echo "== 65 levels of nesting (each file includes the next, no file includes itself)"; "$BIN" -s deep/main.asm -o /tmp/c11_5.hex; echo "exit=$?"; [ -f /tmp/c11_5.hex ] && cat /tmp/c11_5.hex; rm -f /tmp/c11_5.hex
echo "== 4097 includes of a one-line file"; "$BIN" -s many/main.asm -o /tmp/c11_5.hex; echo "exit=$?"; [ -f /tmp/c11_5.hex ] && head -3 /tmp/c11_5.hex; rm -f /tmp/c11_5.hex
echo "EXPECTED: ret,nop for both nestings, 4097 nops for the third; OBSERVED: 'includes are nested too deeply (does f65.inc include itself?)' and 'too many files to include'"
