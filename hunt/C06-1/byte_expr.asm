.eseg
.byte 2+1
.db 9
