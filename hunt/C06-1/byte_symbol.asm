.equ N = 3
.eseg
.byte N
.db 9
