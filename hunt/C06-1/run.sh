#!/bin/bash
# usage: run.sh /path/to/avra-rs
BIN=${1:-/tmp/hunt-wt-6-target/debug/avra-rs}
cd "$(dirname "$0")"
for f in byte_literal_control byte_symbol byte_expr byte_expr_label; do
  rm -f $f.hex $f.eep.hex
  "$BIN" -s $f.asm -o $f.hex -e $f.eep.hex; echo "$f rc=$?"
  echo "  eeprom hex:"; sed 's/^/    /' $f.eep.hex 2>/dev/null
done
echo "EXPECTED: byte_symbol and byte_expr give the same EEPROM image as byte_literal_control (00 00 00 09 -> :0400000000000009F3);"
echo "OBSERVED: they give a single byte 09 (:0100000009F6): the .byte line contributed nothing and the build succeeded."
