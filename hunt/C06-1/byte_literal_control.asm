.eseg
.byte 3
.db 9
