.eseg
lab: .byte 1+1
after: .db after, 5
