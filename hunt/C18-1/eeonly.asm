        .eseg
        .db 1, 2, 3
