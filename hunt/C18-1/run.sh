#!/bin/bash
# usage: run.sh [path-to-avra-rs]
BIN=${1:-/tmp/hunt-wt-4-target/debug/avra-rs}
HERE="$(cd "$(dirname "$0")" && pwd)"
T=$(mktemp -d); cd $T
echo "--- 1) empty source, default output path"
cp $HERE/empty.asm a.asm
"$BIN" -s a.asm; echo "exit=$?  a.hex exists: $([ -e a.hex ] && echo yes || echo NO)"
echo "--- 2) EEPROM-only source with explicit -o"
cp $HERE/eeonly.asm b.asm
"$BIN" -s b.asm -o out.hex; echo "exit=$?  out.hex exists: $([ -e out.hex ] && echo yes || echo NO); b.eep.hex exists: $([ -e b.eep.hex ] && echo yes || echo NO)"
echo "--- 3) stale image: c.asm first has code, then is edited to have none"
printf '        ldi r16, 1\n        rjmp 0\n' > c.asm
"$BIN" -s c.asm >/dev/null; echo "first build exit=$? c.hex:"; cat c.hex
cp $HERE/empty.asm c.asm
"$BIN" -s c.asm; echo "second build exit=$?  c.hex still holds the OLD program (library image for the source is now empty):"; cat c.hex
echo "expected: <stem>.hex / the -o file is written on every successful run and decodes to the (empty) flash image the library built (writer emits ':00000001FF' for it), or the run fails visibly"
cd /; rm -rf $T
