; a source without any flash content
