#!/bin/sh
# usage: run.sh /path/to/avra-rs
BIN=${1:-/tmp/hunt-wt-8-target/debug/avra-rs}
D=$(cd "$(dirname "$0")" && pwd)
T=$(mktemp -d)
cat $D/double.asm
echo "4-line source, address space capped at 4 GB so that the machine survives:"
( ulimit -v 4000000; time timeout 600 $BIN -s $D/double.asm -o $T/o.hex; echo "exit=$?" )
echo "expected: prompt error 'macro m is nested too deeply' (recursion limit 64)"
echo "observed: ~1 min of work, >2.5 GB, then 'memory allocation of 4294967296 bytes failed' + SIGABRT (exit 134)"
rm -rf $T
