.macro m
m @0@0
.endm
m a
