; ATmega8 has 4K words of flash. The ISA manual (RJMP/RCALL): "For AVR microcontrollers with
; program memory not exceeding 4K words (8KB) this instruction can address the entire memory
; from every address location" - the PC wraps modulo 4096.
.device ATmega8
        rjmp 0xfff          ; at 0: k = -2 (wraps 0 -> 0xfff), expected word 0xCFFE
        rcall 0xf00         ; at 1: k = 0xf00-2-4096 = -258, expected word 0xDEFE
