#!/bin/sh
BIN=${1:-/tmp/hunt-wt-1-target/debug/avra-rs}
D=$(dirname "$0")
$BIN -s $D/rjmp_wrap.asm -o /tmp/hunt_c01_3.hex; echo "exit=$? (expected 0 and data FECFFEDE)"; cat /tmp/hunt_c01_3.hex 2>/dev/null
rm -f /tmp/hunt_c01_*.hex
