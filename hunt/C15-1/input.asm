.macro m
.warning "B (macro body, line 2)"
 nop
.endm
.message "A (line 5)"
 m
.message "C (line 7)"
 m
.warning "D (line 9)"
