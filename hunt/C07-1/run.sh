#!/bin/sh
# usage: run.sh /path/to/avra-rs
# Shows that both written HEX files end with an empty line (CR LF CR LF) after the EOF record,
# i.e. the file does not consist solely of Intel HEX records and does not end in the EOF record.
B=${1:-/tmp/hunt-wt-7-target/debug/avra-rs}
D=$(cd "$(dirname "$0")" && pwd)
T=$(mktemp -d)
cp "$D/in.asm" "$T/in.asm"
"$B" -s "$T/in.asm" -o "$T/out.hex" -e "$T/out.eep.hex" || exit 2
for f in out.hex out.eep.hex; do
  echo "== $f (last 16 bytes)"; tail -c 16 "$T/$f" | od -c | head -3
  echo "   lines that are not records: $(tr -d '\r' < "$T/$f" | grep -c -v '^:[0-9A-F][0-9A-F]*$')"
done
# expected for a conforming file: 0 lines that are not records, file ends ":00000001FF\r\n"
if tail -c 4 "$T/out.hex" | od -An -c | grep -q '\\r  *\\n  *\\r  *\\n'; then echo "VIOLATION: empty line after the EOF record"; exit 1; fi
echo "no violation"; exit 0
