#!/bin/sh
# usage: run.sh /path/to/avra-rs
# With no device selected the assembler accepts images up to 8 MiB, but the HEX writer refuses every image above 1 MiB.
B=${1:-/tmp/hunt-wt-7-target/debug/avra-rs}
D=$(cd "$(dirname "$0")" && pwd)
T=$(mktemp -d)
cp "$D"/*.asm "$T/"
"$B" -s "$T/fits.asm" -o "$T/fits.hex"; echo "exit status (fits.asm, image of exactly 1 MiB): $?"; ls -la "$T/fits.hex"
"$B" -s "$T/big.asm" -o "$T/big.hex"; rc=$?; echo "exit status (big.asm, image of 1 MiB + 2 bytes): $rc"; ls -la "$T/big.hex" 2>&1
if [ $rc -ne 0 ] && [ ! -e "$T/big.hex" ]; then echo "VIOLATION (if images above 1 MiB are in scope): image built, no HEX file written"; exit 1; fi
echo "no violation"; exit 0
