; no .device: flash limit is 4194304 words (8 MiB)
.org 0x80000
nop
