; no .device: default flash 4194304 words; the last word of it is used
.org 4194303
 nop
