; no .device: 524289 words (1 MiB + 2 bytes), an eighth of the default capacity
.org 524288
 nop
