#!/bin/bash
B=${1:-/tmp/hunt-wt-3-target/debug/avra-rs}
cd "$(dirname "$0")"
for f in default_flash_full default_flash_eighth; do echo "== $f.asm"; $B -v -s $f.asm -o /tmp/c12-8.hex | cut -c1-200; echo "exit=${PIPESTATUS[0]}"; done
rm -f /tmp/c12-8.hex
