        .device ATtiny20
        std Y+63, r31
