#!/bin/bash
# usage: run.sh [path-to-avra-rs]
BIN=${1:-/tmp/hunt-wt-4-target/debug/avra-rs}
cd "$(dirname "$0")"
T=$(mktemp -d)
for f in in1.asm in2.asm same_bytes_as_in1_but_lds.asm; do
  cp $f $T/p.asm; rm -f $T/p.hex
  "$BIN" -s $T/p.asm 2>&1 | grep -v 'Nothing to write of eeprom' | sed "s#$T/##"
  echo "$f: $(sed -n 2p $f | tr -s ' ') -> exit=${PIPESTATUS[0]} bytes(le)=$( [ -f $T/p.hex ] && sed -n 2p $T/p.hex | tr -d '\r' | cut -c10-13 || echo none)"
done
echo "expected: in1/in2 fail (AVRrc has no LDD/STD; 1010 xxxx xxxx xxxx is the 16-bit LDS/STS there)"
rm -rf $T
