        .device ATtiny20
        lds r16, 0x40
