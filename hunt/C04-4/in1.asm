        .device ATtiny20
        ldd r16, Z+40
