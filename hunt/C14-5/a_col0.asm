start:
        nop
loop:   dec r16
        brne loop
        rjmp start
