#!/bin/sh
BIN=${1:-/tmp/hunt-wt-1-target/debug/avra-rs}
D=$(dirname "$0")
for f in a_col0 b_indented; do
  echo "== $f =="; $BIN -s $D/$f.asm -o /tmp/hunt_c14_5_$f.hex -v; echo "exit=$?"; cat /tmp/hunt_c14_5_$f.hex 2>/dev/null; rm -f /tmp/hunt_c14_5_$f.hex
done
echo "expected: identical; observed: b_indented fails to parse line 1 (and line 3 on its own)"
