.equ r1x = 5
 ldi r16, r1x
