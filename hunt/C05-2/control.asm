.equ r1x = 5
 ldi r16, 0+r1x
 .dq r1x
