.equ R2D2 = 5
 ldi r16, R2D2
