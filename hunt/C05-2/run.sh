#!/bin/sh
# usage: ./run.sh /path/to/avra-rs
BIN="${1:-/tmp/hunt-wt-5-target/debug/avra-rs}"
cd "$(dirname "$0")" || exit 2
HERE="$(pwd)"
for f in rsym rsym2 rsym3 control; do
  echo "== $f.asm"; "$BIN" -s $f.asm -o $f.hex; echo "exit=$?"; [ -f $f.hex ] && cat $f.hex; rm -f $f.hex
done
echo "EXPECTED: rsym -> 05 e0, rsym2 -> 06 e0, rsym3 -> 05 e0; OBSERVED: parse failures; control (0+r1x, .dq r1x) works"
