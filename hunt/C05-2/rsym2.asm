.equ r16_save = 5
 ldi r16, r16_save + 1
