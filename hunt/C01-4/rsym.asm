; a symbol whose name starts with r + digit(s) cannot be used as an instruction operand
.equ r16_mask = 3
r1_loop:
        ldi r16, r16_mask     ; expected 0xE003
        rjmp r1_loop          ; expected 0xCFFE
