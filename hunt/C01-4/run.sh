#!/bin/sh
BIN=${1:-/tmp/hunt-wt-1-target/debug/avra-rs}
D=$(dirname "$0")
echo "== control with parentheses =="; $BIN -s $D/rsym_paren.asm -o /tmp/hunt_c01_4a.hex; echo "exit=$?"; cat /tmp/hunt_c01_4a.hex
echo "== plain operands (expected identical output) =="; $BIN -s $D/rsym.asm -o /tmp/hunt_c01_4b.hex; echo "exit=$?"; cat /tmp/hunt_c01_4b.hex 2>/dev/null
rm -f /tmp/hunt_c01_*.hex
