; control: same program, operands wrapped in parentheses - assembles to 03E0 FECF
.equ r16_mask = 3
r1_loop:
        ldi r16, (r16_mask)
        rjmp (r1_loop)
