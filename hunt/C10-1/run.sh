#!/bin/bash
# usage: run.sh /path/to/avra-rs
B=${1:-/tmp/hunt-wt-9-target/debug/avra-rs}
cd "$(dirname "$0")"
echo "== byte_equ_size.asm"; rm -f byte_equ_size.hex byte_equ_size.eep.hex; $B -s byte_equ_size.asm -o byte_equ_size.hex -e byte_equ_size.eep.hex; echo "exit=$?"; [ -f byte_equ_size.hex ] && cat byte_equ_size.hex; [ -f byte_equ_size.eep.hex ] && { echo '-- eeprom'; cat byte_equ_size.eep.hex; }
echo "== byte_undefined_name.asm"; rm -f byte_undefined_name.hex byte_undefined_name.eep.hex; $B -s byte_undefined_name.asm -o byte_undefined_name.hex -e byte_undefined_name.eep.hex; echo "exit=$?"; [ -f byte_undefined_name.hex ] && cat byte_undefined_name.hex; [ -f byte_undefined_name.eep.hex ] && { echo '-- eeprom'; cat byte_undefined_name.eep.hex; }
