; undefined in .byte must fail
.dseg
a:	.byte nosuch
b:	.byte 1
.cseg
	lds r16, b
