; .byte with symbol size
.equ N = 4
.dseg
a:	.byte N
b:	.byte 1
.cseg
	lds r16, a
	lds r17, b
