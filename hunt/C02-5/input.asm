.macro m
.org 0x10
x: nop
.endm
.org 0x10
 nop
 nop
 m             ; .org 0x10 again: words 0x10 and 0x11 are already occupied
 .dw x         ; x is 0x12
