; label named pc
	nop
pc:	nop
	nop
	rjmp pc
	ldi r16, PC
