#!/bin/bash
# usage: run.sh /path/to/avra-rs
B=${1:-/tmp/hunt-wt-9-target/debug/avra-rs}
cd "$(dirname "$0")"
echo "== label_named_pc.asm"; rm -f label_named_pc.hex label_named_pc.eep.hex; $B -s label_named_pc.asm -o label_named_pc.hex -e label_named_pc.eep.hex; echo "exit=$?"; [ -f label_named_pc.hex ] && cat label_named_pc.hex; [ -f label_named_pc.eep.hex ] && { echo '-- eeprom'; cat label_named_pc.eep.hex; }
