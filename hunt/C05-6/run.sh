#!/bin/sh
# usage: ./run.sh /path/to/avra-rs
BIN="${1:-/tmp/hunt-wt-5-target/debug/avra-rs}"
cd "$(dirname "$0")" || exit 2
HERE="$(pwd)"
for f in rem control; do
  echo "== $f.asm"; "$BIN" -s $f.asm -o $f.hex; echo "exit=$?"; [ -f $f.hex ] && cat $f.hex; rm -f $f.hex
done
echo "EXPECTED: rem.asm -> 0 (the remainder of any number by -1 is 0, nothing overflows); OBSERVED: 'Arithmetic error: Remainder overflowed'"
