; SPM Z+ (opcode 1001 0101 1111 1000 = 0x95F8) is the second form of SPM in the AVR Instruction Set Manual
        spm
        spm Z+
