#!/bin/sh
BIN=${1:-/tmp/hunt-wt-1-target/debug/avra-rs}
D=$(dirname "$0")
$BIN -s $D/spm_zplus.asm -o /tmp/hunt_c01_2.hex; echo "exit=$? (expected 0 and data E895F895)"; cat /tmp/hunt_c01_2.hex 2>/dev/null
rm -f /tmp/hunt_c01_*.hex
