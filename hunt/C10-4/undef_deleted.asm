; original program had `.undef cnt` before the second .def; that single line was deleted
.def cnt = r17
	dec cnt
;.undef cnt
.def cnt = r20
	dec cnt
