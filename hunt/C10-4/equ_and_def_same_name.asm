; equ and def same name: both accepted?
.equ t = 5
.def t = r16
	ldi r17, t
