; .def redefinition without undef
.def t = r16
	mov t, r0
.def t = r17
	mov t, r0
