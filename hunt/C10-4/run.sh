#!/bin/bash
# usage: run.sh /path/to/avra-rs
B=${1:-/tmp/hunt-wt-9-target/debug/avra-rs}
cd "$(dirname "$0")"
echo "== def_twice.asm"; rm -f def_twice.hex def_twice.eep.hex; $B -s def_twice.asm -o def_twice.hex -e def_twice.eep.hex; echo "exit=$?"; [ -f def_twice.hex ] && cat def_twice.hex; [ -f def_twice.eep.hex ] && { echo '-- eeprom'; cat def_twice.eep.hex; }
echo "== undef_deleted.asm"; rm -f undef_deleted.hex undef_deleted.eep.hex; $B -s undef_deleted.asm -o undef_deleted.hex -e undef_deleted.eep.hex; echo "exit=$?"; [ -f undef_deleted.hex ] && cat undef_deleted.hex; [ -f undef_deleted.eep.hex ] && { echo '-- eeprom'; cat undef_deleted.eep.hex; }
echo "== equ_and_def_same_name.asm"; rm -f equ_and_def_same_name.hex equ_and_def_same_name.eep.hex; $B -s equ_and_def_same_name.asm -o equ_and_def_same_name.hex -e equ_and_def_same_name.eep.hex; echo "exit=$?"; [ -f equ_and_def_same_name.hex ] && cat equ_and_def_same_name.hex; [ -f equ_and_def_same_name.eep.hex ] && { echo '-- eeprom'; cat equ_and_def_same_name.eep.hex; }
