; control: same program, labels renamed
l16_loop:
        dec r16
        brne l16_loop
l2d2:   nop
        rjmp l2d2
        rcall l0_init
l0_init:
        ret
