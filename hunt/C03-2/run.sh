#!/bin/bash
B=${1:-/tmp/hunt-wt-3-target/debug/avra-rs}
cd "$(dirname "$0")"
for f in r_digit_label control label_x; do echo "== $f.asm"; rm -f /tmp/c03-2.hex; $B -s $f.asm -o /tmp/c03-2.hex | cut -c1-230; echo "exit=${PIPESTATUS[0]}"; [ -f /tmp/c03-2.hex ] && sed -n 2p /tmp/c03-2.hex; done
true
