x:      nop
        rjmp x
