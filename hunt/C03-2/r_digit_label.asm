; labels that merely start with r<digit>: legal identifiers, not register names
r16_loop:
        dec r16
        brne r16_loop        ; d = -2, fits
r2d2:   nop
        rjmp r2d2            ; d = -2, fits
        rcall r0_init        ; d = 0, fits
r0_init:
        ret
