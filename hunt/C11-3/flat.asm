.macro m
 nop
 ret
.endmacro
 m
 sleep
