#!/bin/sh
# usage: ./run.sh /path/to/avra-rs
BIN="${1:-/tmp/hunt-wt-5-target/debug/avra-rs}"
cd "$(dirname "$0")" || exit 2
HERE="$(pwd)"
echo "== split"; "$BIN" -s main.asm -o /tmp/c11_3.hex; echo "exit=$?"; [ -f /tmp/c11_3.hex ] && cat /tmp/c11_3.hex; rm -f /tmp/c11_3.hex
echo "== pasted"; "$BIN" -s flat.asm -o /tmp/c11_3.hex; echo "exit=$?"; cat /tmp/c11_3.hex; rm -f /tmp/c11_3.hex
echo "EXPECTED: identical (nop, ret, sleep = 0000 0895 8895); OBSERVED: split fails with 'Unsupported directive endmacro in code segment, line: 3'"
