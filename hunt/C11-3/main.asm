.include "open.inc"
 ret
.endmacro
 m
 sleep
