#!/bin/sh
# usage: ./run.sh /path/to/avra-rs
BIN="${1:-/tmp/hunt-wt-5-target/debug/avra-rs}"
cd "$(dirname "$0")" || exit 2
HERE="$(pwd)"
for f in label_if label_org control; do
  echo "== $f.asm"; "$BIN" -s $f.asm -o $f.hex; echo "exit=$?"; [ -f $f.hex ] && cat $f.hex; rm -f $f.hex
done
echo "EXPECTED: label_if assembles the nop (tab_end - tab = 2 > 1); label_org puts the second nop at 0x10; OBSERVED: 'Identifier tab_end can not be found.' / 'Identifier start can not be found.'"
