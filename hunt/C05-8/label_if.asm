tab: .db 1,2,3,4
tab_end:
.if tab_end - tab > 1
 nop
.endif
