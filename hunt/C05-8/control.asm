tab: .db 1,2,3,4
tab_end:
.dq tab_end - tab > 1
