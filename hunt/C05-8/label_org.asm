start: nop
.org start + 0x10
 nop
