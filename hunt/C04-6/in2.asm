.define P 64
        out P, r0
        adiw r24, P
