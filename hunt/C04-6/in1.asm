#define K 300
        ldi r16, K
