#!/bin/bash
# usage: run.sh [path-to-avra-rs]
BIN=${1:-/tmp/hunt-wt-4-target/debug/avra-rs}
cd "$(dirname "$0")"
T=$(mktemp -d)
for f in in1.asm in2.asm ctl_equ_rejected.asm; do
  cp $f $T/p.asm; rm -f $T/p.hex
  "$BIN" -s $T/p.asm 2>&1 | grep -v 'Nothing to write of eeprom' | sed "s#$T/##"
  echo "$f -> exit=${PIPESTATUS[0]} hex=$( [ -f $T/p.hex ] && sed -n 2p $T/p.hex | tr -d '\r' || echo none)"
done
echo "expected: in1/in2 fail (300 does not fit ldi's 8-bit K; 64 is outside out's 0..63 port field and adiw's 0..63 K) - instead the operand 0 is encoded"
rm -rf $T
