; a macro that reserves RAM, called in code that was placed with .org (the usual layout behind a vector table)
.device ATmega8          ; RAM 0x60..0x45f (1024 bytes)
.macro var
.dseg
@0: .byte 1
.cseg
.endm
.org 0x100
    nop
    var foo              ; needs 1 byte of RAM
    .dw foo
