; the same with the code at 0x10: 1 byte of RAM needed, build fails
.device ATmega8
.macro var
.dseg
@0: .byte 1
.cseg
.endm
.org 0x10
    nop
    var foo
