; code at 0x460 (well inside the 4096-word flash), 1 byte of RAM needed: reported as RAM overflow
.device ATmega8
.macro var
.dseg
@0: .byte 1
.cseg
.endm
.org 0x460
    nop
    var foo
