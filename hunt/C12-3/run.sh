#!/bin/bash
B=${1:-/tmp/hunt-wt-3-target/debug/avra-rs}
cd "$(dirname "$0")"
for f in macro_var_after_org macro_var_after_org_fail macro_var_after_org_over; do
  echo "== $f.asm"; rm -f /tmp/c12-3.hex; $B -v -s $f.asm -o /tmp/c12-3.hex -e /tmp/c12-3.eep.hex | grep -v "Nothing to"; echo "exit=${PIPESTATUS[0]}"; [ -f /tmp/c12-3.hex ] && grep "^:..0200" /tmp/c12-3.hex
done
true
