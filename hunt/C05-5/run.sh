#!/bin/sh
# usage: ./run.sh /path/to/avra-rs
BIN="${1:-/tmp/hunt-wt-5-target/debug/avra-rs}"
cd "$(dirname "$0")" || exit 2
HERE="$(pwd)"
for f in shl mul; do
  echo "== $f.asm"; "$BIN" -s $f.asm -o $f.hex; echo "exit=$?"; [ -f $f.hex ] && cat $f.hex; rm -f $f.hex
done
echo "EXPECTED (if << counts as arithmetic): shl.asm fails like mul.asm does; OBSERVED: shl.asm builds: -2, 0, i64::MIN, i64::MIN"
