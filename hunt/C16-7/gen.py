a='.equ a = 0*'+'+'.join(['1']*58)+'\n'
b='.equ b = '+'+'.join(['a']*58)+'\n'
c='.equ c = (b+b)+(b+b)+(b+b)+(b+b)\n'
rest=64000-len(a)-len(b)-len(c)
line='.dw '+','.join(['c']*((rest-5)//2))+'\n'
open('steps.asm','w').write(a+b+c+line)
