#!/bin/sh
# usage: run.sh /path/to/avra-rs
BIN=${1:-/tmp/hunt-wt-8-target/debug/avra-rs}
D=$(cd "$(dirname "$0")" && pwd)
T=$(mktemp -d)
[ -f $D/steps.asm ] || (cd $D && python3 gen.py)
echo "64 KB source: three .equ and one .dw line with ~31800 operands 'c'"
( time timeout 900 $BIN -s $D/steps.asm -o $T/o.hex; echo "exit=$?" )
echo "observed: ~85 s (debug build), 10 MB; every operand costs ~54000 evaluation steps (just under MAX_EVALUATION_STEPS) and is evaluated afresh"
rm -rf $T
