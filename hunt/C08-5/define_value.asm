#define DEBUG 1
#if DEBUG
 nop            ; expected: DEBUG is 1
#else
 ret
#endif
.define FLAG
.if FLAG
 nop            ; AVRA: a .define without value is 1
.else
 ret
.endif
