#!/bin/sh
# usage: run.sh /path/to/avra-rs
BIN=${1:-/tmp/hunt-wt-8-target/debug/avra-rs}
D=$(cd "$(dirname "$0")" && pwd)
T=$(mktemp -d)
$BIN -s $D/define_value.asm -o $T/o.hex; echo "exit=$?"; cat $T/o.hex 2>/dev/null
echo "expected: 0000 0000 (nop, nop);  observed: 0895 0895 (ret, ret): '#define DEBUG 1' stores 0, so '#if DEBUG' takes the #else arm"
rm -rf $T
