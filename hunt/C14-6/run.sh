#!/bin/sh
BIN=${1:-/tmp/hunt-wt-1-target/debug/avra-rs}
D=$(dirname "$0")
for f in a_ascii b_latin1_comment c_utf8_comment_control; do
  echo "== $f =="; $BIN -s $D/$f.asm -o /tmp/hunt_c14_6_$f.hex -v; echo "exit=$?"; cat /tmp/hunt_c14_6_$f.hex 2>/dev/null; rm -f /tmp/hunt_c14_6_$f.hex
done
echo "expected: identical images; observed: b fails with 'stream did not contain valid UTF-8'"
