        ldi r16, 100 ; delay
        ret
