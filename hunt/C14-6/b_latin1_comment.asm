        ldi r16, 100 ; delay 100 µs (café)
        ret
