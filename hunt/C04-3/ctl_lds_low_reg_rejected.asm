        .device ATtiny20
        lds r15, 0x40
