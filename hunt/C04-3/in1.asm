        .device ATtiny20
        mov r0, r15
        clr r3
        push r7
        ld r2, X+
        in r1, 0x3f
        add r16, r4
        sbrc r9, 1
