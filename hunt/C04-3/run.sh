#!/bin/bash
# usage: run.sh [path-to-avra-rs]
BIN=${1:-/tmp/hunt-wt-4-target/debug/avra-rs}
cd "$(dirname "$0")"
T=$(mktemp -d)
for f in in1.asm ctl_lds_low_reg_rejected.asm; do
  cp $f $T/p.asm; rm -f $T/p.hex
  "$BIN" -s $T/p.asm 2>&1 | grep -v 'Nothing to write of eeprom' | sed "s#$T/##"
  echo "$f: exit=${PIPESTATUS[0]} hex: $( [ -f $T/p.hex ] && sed -n 2p $T/p.hex | tr -d '\r' || echo none)"
done
echo "expected: in1.asm fails - ATtiny20 is the reduced core (AVRrc / 'Avr8l' in device.rs) whose register file is r16..r31 only; the tool itself knows this for lds/sts (control file) but not for any other instruction"
rm -rf $T
