; second build: the flash image is empty, only EEPROM data
.eseg
.db 9
