nop
nop
