#!/bin/sh
# usage: run.sh /path/to/avra-rs
# An empty image is never written as a HEX file by the command-line front end: no file appears, and a HEX file
# left at the output path by an earlier build stays there and still decodes to the OLD image.
B=${1:-/tmp/hunt-wt-7-target/debug/avra-rs}
D=$(cd "$(dirname "$0")" && pwd)
T=$(mktemp -d)
cp "$D"/*.asm "$T/"
"$B" -s "$T/empty.asm" -o "$T/empty.hex" -e "$T/empty.eep.hex"; echo "exit status (empty.asm): $?"
ls "$T"/empty.hex "$T"/empty.eep.hex 2>&1
"$B" -s "$T/first.asm"  -o "$T/out.hex" -e "$T/out.eep.hex"; echo "exit status (first.asm): $?"
"$B" -s "$T/second.asm" -o "$T/out.hex" -e "$T/out.eep.hex"; echo "exit status (second.asm): $?"
echo "== out.hex after the second build (flash image of second.asm is EMPTY):"; cat -A "$T/out.hex"
if [ ! -e "$T/empty.hex" ] && grep -q '^:04000000' "$T/out.hex"; then echo "VIOLATION: no HEX file for the empty image; stale out.hex still holds the 4 bytes of the previous build"; exit 1; fi
echo "no violation"; exit 0
