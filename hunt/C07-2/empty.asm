; nothing at all
