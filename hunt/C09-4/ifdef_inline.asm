.ifdef FLAG
	ldi r16, 1
.else
	ldi r16, 2
.endif
#define FLAG
.ifdef FLAG
	ldi r16, 1
.else
	ldi r16, 2
.endif

