.macro m
.ifdef @0
	ldi r16, 1
.else
	ldi r16, 2
.endif
.endm
	m FLAG
#define FLAG
	m FLAG
