#!/bin/bash
# usage: run.sh /path/to/avra-rs
B=${1:-/tmp/hunt-wt-9-target/debug/avra-rs}
cd "$(dirname "$0")"
echo "== ifdef_macro.asm"; rm -f ifdef_macro.hex ifdef_macro.eep.hex; $B -s ifdef_macro.asm -o ifdef_macro.hex -e ifdef_macro.eep.hex; echo "exit=$?"; [ -f ifdef_macro.hex ] && cat ifdef_macro.hex; [ -f ifdef_macro.eep.hex ] && { echo '-- eeprom'; cat ifdef_macro.eep.hex; }
echo "== ifdef_inline.asm"; rm -f ifdef_inline.hex ifdef_inline.eep.hex; $B -s ifdef_inline.asm -o ifdef_inline.hex -e ifdef_inline.eep.hex; echo "exit=$?"; [ -f ifdef_inline.hex ] && cat ifdef_inline.hex; [ -f ifdef_inline.eep.hex ] && { echo '-- eeprom'; cat ifdef_inline.eep.hex; }
