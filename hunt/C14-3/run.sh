#!/bin/sh
BIN=${1:-/tmp/hunt-wt-1-target/debug/avra-rs}
D=$(dirname "$0")
for f in a_tight b_spaced c_only_displacement; do
  echo "== $f =="; $BIN -s $D/$f.asm -o /tmp/hunt_c14_3_$f.hex -v; echo "exit=$?"; cat /tmp/hunt_c14_3_$f.hex 2>/dev/null; rm -f /tmp/hunt_c14_3_$f.hex
done
echo "expected: identical output; observed: b and c fail to parse"
