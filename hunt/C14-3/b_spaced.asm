.equ q = 5
        ldd r8, Y + 5
        std Z + q, r9
        ld r2, X +
        st - Y, r3
        lpm r4, Z +
