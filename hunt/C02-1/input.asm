.equ SIZE = 4
.dseg
a: .byte SIZE      ; reservation given by a symbol
b: .byte 2+2       ; reservation given by an expression
c: .byte 1
.cseg
 .dw a, b, c       ; expected 0x0060, 0x0064, 0x0068
