.eseg
 .db 1
.org 0
e: .db 2
.cseg
 .dw e        ; e is 1 although .org 0 precedes it
