 nop
.org 0
x: nop
 .dw x        ; x is 1 although .org 0 precedes it
