 nop
 ldd r16, X      ; ldd takes only Y+q / Z+q
