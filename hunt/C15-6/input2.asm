 ldd r16, Z+
 ldd r16, -Z
 std -Y, r1
 ld r16, Y+3
