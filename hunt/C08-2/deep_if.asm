.if 0
.if (((((((((((((((((((((((((((((((((((((((((((((((((((((((((((((((((1)))))))))))))))))))))))))))))))))))))))))))))))))))))))))))))))))
 nop
.endif
 ret            ; still inside the unselected outer branch
.endif
 sleep
