.if 0
.if @@@ this condition is not valid assembly
 nop
.endif
 ret            ; still inside the unselected outer branch
.endif
 sleep
