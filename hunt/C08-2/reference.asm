 sleep
