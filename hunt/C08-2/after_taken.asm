.if 1
 sleep
.else
.if "text" == 5
 nop
.endif
 ret            ; still inside the unselected .else branch
.endif
