#!/bin/sh
# usage: run.sh /path/to/avra-rs
BIN=${1:-/tmp/hunt-wt-8-target/debug/avra-rs}
D=$(cd "$(dirname "$0")" && pwd)
T=$(mktemp -d)
for f in reference garbage_if deep_if after_taken; do
  echo "== $f.asm"
  $BIN -s $D/$f.asm -o $T/$f.hex; echo "exit=$?"; cat $T/$f.hex 2>/dev/null
done
echo "expected: all four images are the single word 9588 (sleep)"
echo "observed: garbage_if/deep_if emit 0895 8895 (ret + sleep), after_taken emits 8895 0895 (sleep + ret): the 'ret' of the unselected branch is assembled"
rm -rf $T
