#!/usr/bin/env python3
"""Writes spec/avr_isa.json — the ISA oracle for C01/C02/C03/C04/C13.

Written from the AVR Instruction Set Manual (DESIGN.md appendix F); the repository's own opcode comments and tables were
not consulted.  One row per (mnemonic, operand form, core).  Pattern: 16 or 32 characters, MSB first; '0'/'1' are opcode bits,
a letter is a field bit (leftmost occurrence of a letter = most significant bit of that field).  Every operand says which
written values are legal and how the written value v maps to the field value (`field`, a Python expression in v).
"""
import json
import os

ROWS = []
ALL = list(range(32))
HIGH = list(range(16, 32))


def reg(letter, regs=ALL, field="v"):
    return {"kind": "reg", "letter": letter, "legal": regs, "field": field}


def imm(letter, lo, hi, field="v"):
    return {"kind": "imm", "letter": letter, "lo": lo, "hi": hi, "field": field}


def rel(letter, lo, hi, bits):
    # written operand is the target address; v = target - pc - 1 must lie in lo..hi; field = two's complement of v
    return {"kind": "rel", "letter": letter, "lo": lo, "hi": hi, "field": "v & %d" % ((1 << bits) - 1)}


def index(r16, mode, q=None):
    d = {"kind": "index", "reg": r16, "mode": mode}
    if q:
        d["q"] = q
    return d


def row(mn, op, pattern, operands=(), sub=None, core="any", alias_of=None, second_reg_is_first=False):
    pat = pattern.replace(" ", "")
    assert len(pat) in (16, 32), (mn, pat)
    ROWS.append({"mn": mn, "op": op, "sub": sub, "core": core, "pattern": pat, "words": len(pat) // 16,
                 "operands": list(operands), "alias_of": alias_of})


# two-register ALU
for mn, op, pat in [("add", "Add", "0000 11rd dddd rrrr"), ("adc", "Adc", "0001 11rd dddd rrrr"), ("sub", "Sub", "0001 10rd dddd rrrr"),
                    ("sbc", "Sbc", "0000 10rd dddd rrrr"), ("and", "And", "0010 00rd dddd rrrr"), ("or", "Or", "0010 10rd dddd rrrr"),
                    ("eor", "Eor", "0010 01rd dddd rrrr"), ("mov", "Mov", "0010 11rd dddd rrrr"), ("cp", "Cp", "0001 01rd dddd rrrr"),
                    ("cpc", "Cpc", "0000 01rd dddd rrrr"), ("cpse", "Cpse", "0001 00rd dddd rrrr"), ("mul", "Mul", "1001 11rd dddd rrrr")]:
    row(mn, op, pat, [reg("d"), reg("r")])
# aliases with Rr := Rd  (letter e = the same operand as d)
for mn, op, pat, al in [("tst", "Tst", "0010 00ed dddd eeee", "and"), ("clr", "Clr", "0010 01ed dddd eeee", "eor"),
                        ("lsl", "Lsl", "0000 11ed dddd eeee", "add"), ("rol", "Rol", "0001 11ed dddd eeee", "adc")]:
    row(mn, op, pat, [{"kind": "reg", "letter": "d", "legal": ALL, "field": "v", "also": "e"}], alias_of=al)
# register-immediate
K8 = ("K", -128, 255, "v % 256")
for mn, op, pat in [("subi", "Subi", "0101 KKKK dddd KKKK"), ("sbci", "Sbci", "0100 KKKK dddd KKKK"), ("andi", "Andi", "0111 KKKK dddd KKKK"),
                    ("ori", "Ori", "0110 KKKK dddd KKKK"), ("cpi", "Cpi", "0011 KKKK dddd KKKK"), ("ldi", "Ldi", "1110 KKKK dddd KKKK"),
                    ("sbr", "Sbr", "0110 KKKK dddd KKKK")]:
    row(mn, op, pat, [reg("d", HIGH, "v - 16"), imm(*K8)], alias_of="ori" if mn == "sbr" else None)
row("cbr", "Cbr", "0111 KKKK dddd KKKK", [reg("d", HIGH, "v - 16"), imm("K", -128, 255, "255 - (v % 256)")], alias_of="andi")
row("ser", "Ser", "1110 1111 dddd 1111", [reg("d", HIGH, "v - 16")], alias_of="ldi")
# word immediate
for mn, op, pat in [("adiw", "Adiw", "1001 0110 KKdd KKKK"), ("sbiw", "Sbiw", "1001 0111 KKdd KKKK")]:
    row(mn, op, pat, [reg("d", [24, 26, 28, 30], "(v - 24) // 2"), imm("K", 0, 63)])
# one register
for mn, op, pat in [("com", "Com", "1001 010d dddd 0000"), ("neg", "Neg", "1001 010d dddd 0001"), ("swap", "Swap", "1001 010d dddd 0010"),
                    ("inc", "Inc", "1001 010d dddd 0011"), ("asr", "Asr", "1001 010d dddd 0101"), ("lsr", "Lsr", "1001 010d dddd 0110"),
                    ("ror", "Ror", "1001 010d dddd 0111"), ("dec", "Dec", "1001 010d dddd 1010"), ("push", "Push", "1001 001d dddd 1111"),
                    ("pop", "Pop", "1001 000d dddd 1111")]:
    row(mn, op, pat, [reg("d")])
# multiplies
row("muls", "Muls", "0000 0010 dddd rrrr", [reg("d", HIGH, "v - 16"), reg("r", HIGH, "v - 16")])
M8 = list(range(16, 24))
for mn, op, pat in [("mulsu", "Mulsu", "0000 0011 0ddd 0rrr"), ("fmul", "Fmul", "0000 0011 0ddd 1rrr"), ("fmuls", "Fmuls", "0000 0011 1ddd 0rrr"),
                    ("fmulsu", "Fmulsu", "0000 0011 1ddd 1rrr")]:
    row(mn, op, pat, [reg("d", M8, "v - 16"), reg("r", M8, "v - 16")])
EVEN = list(range(0, 32, 2))
row("movw", "Movw", "0000 0001 dddd rrrr", [reg("d", EVEN, "v // 2"), reg("r", EVEN, "v // 2")])
# flow
row("rjmp", "Rjmp", "1100 kkkk kkkk kkkk", [rel("k", -2048, 2047, 12)])
row("rcall", "Rcall", "1101 kkkk kkkk kkkk", [rel("k", -2048, 2047, 12)])
row("jmp", "Jmp", "1001 010k kkkk 110k kkkk kkkk kkkk kkkk", [imm("k", 0, 4194303)])
row("call", "Call", "1001 010k kkkk 111k kkkk kkkk kkkk kkkk", [imm("k", 0, 4194303)])
for mn, op, word in [("ijmp", "Ijmp", 0x9409), ("eijmp", "Eijmp", 0x9419), ("icall", "Icall", 0x9509), ("eicall", "Eicall", 0x9519),
                     ("ret", "Ret", 0x9508), ("reti", "Reti", 0x9518), ("spm", "Spm", 0x95E8), ("break", "Break", 0x9598), ("nop", "Nop", 0x0000),
                     ("sleep", "Sleep", 0x9588), ("wdr", "Wdr", 0x95A8)]:
    row(mn, op, "{:016b}".format(word))
# conditional branches: brbs s,k = 1111 00kk kkkk ksss ; brbc = 1111 01kk kkkk ksss
BR = {"Eq": ("brbs", 1), "Ne": ("brbc", 1), "Cs": ("brbs", 0), "Lo": ("brbs", 0), "Cc": ("brbc", 0), "Sh": ("brbc", 0), "Mi": ("brbs", 2),
      "Pl": ("brbc", 2), "Vs": ("brbs", 3), "Vc": ("brbc", 3), "Lt": ("brbs", 4), "Ge": ("brbc", 4), "Hs": ("brbs", 5), "Hc": ("brbc", 5),
      "Ts": ("brbs", 6), "Tc": ("brbc", 6), "Ie": ("brbs", 7), "Id": ("brbc", 7)}
for sub, (base, s) in BR.items():
    pat = "1111 0%skk kkkk k%s" % ("0" if base == "brbs" else "1", "{:03b}".format(s))
    row("br" + sub.lower(), "Br", pat, [rel("k", -64, 63, 7)], sub=sub, alias_of="%s %d" % (base, s))
row("brbs", "Br", "1111 00kk kkkk ksss", [imm("s", 0, 7), rel("k", -64, 63, 7)], sub="Bs")
row("brbc", "Br", "1111 01kk kkkk ksss", [imm("s", 0, 7), rel("k", -64, 63, 7)], sub="Bc")
# bit tests / transfers
for mn, op, pat in [("sbrc", "Sbrc", "1111 110r rrrr 0bbb"), ("sbrs", "Sbrs", "1111 111r rrrr 0bbb"), ("bst", "Bst", "1111 101r rrrr 0bbb"),
                    ("bld", "Bld", "1111 100r rrrr 0bbb")]:
    row(mn, op, pat, [reg("r"), imm("b", 0, 7)])
for mn, op, pat in [("sbic", "Sbic", "1001 1001 AAAA Abbb"), ("sbis", "Sbis", "1001 1011 AAAA Abbb"), ("cbi", "Cbi", "1001 1000 AAAA Abbb"),
                    ("sbi", "Sbi", "1001 1010 AAAA Abbb")]:
    row(mn, op, pat, [imm("A", 0, 31), imm("b", 0, 7)])
row("in", "In", "1011 0AAd dddd AAAA", [reg("d"), imm("A", 0, 63)])
row("out", "Out", "1011 1AAr rrrr AAAA", [imm("A", 0, 63), reg("r")])
row("bset", "Bset", "1001 0100 0sss 1000", [imm("s", 0, 7)])
row("bclr", "Bclr", "1001 0100 1sss 1000", [imm("s", 0, 7)])
FLAGS = ["C", "Z", "N", "V", "S", "H", "T", "I"]
for i, f in enumerate(FLAGS):
    row("se" + f.lower(), "Se", "1001 0100 0%s 1000" % "{:03b}".format(i), sub=f, alias_of="bset %d" % i)
    row("cl" + f.lower(), "Cl", "1001 0100 1%s 1000" % "{:03b}".format(i), sub=f, alias_of="bclr %d" % i)
# loads / stores: ld/st have the nine pointer forms without displacement, ldd/std the two with one (bit 9 set = store)
LD = [("X", "None", "1001 000d dddd 1100"), ("X", "PostIncrement", "1001 000d dddd 1101"), ("X", "PreDecrement", "1001 000d dddd 1110"),
      ("Y", "None", "1000 000d dddd 1000"), ("Y", "PostIncrement", "1001 000d dddd 1001"), ("Y", "PreDecrement", "1001 000d dddd 1010"),
      ("Y", "PostIncrementE", "10q0 qq0d dddd 1qqq"),
      ("Z", "None", "1000 000d dddd 0000"), ("Z", "PostIncrement", "1001 000d dddd 0001"), ("Z", "PreDecrement", "1001 000d dddd 0010"),
      ("Z", "PostIncrementE", "10q0 qq0d dddd 0qqq")]
for r16, mode, pat in LD:
    displaced = mode == "PostIncrementE"
    q = imm("q", 0, 63) if displaced else None
    mn, op = ("ldd", "Ldd") if displaced else ("ld", "Ld")
    row(mn, op, pat, [reg("d"), index(r16, mode, q)])
    spat = pat.replace(" ", "")
    spat = spat[:6] + "1" + spat[7:]          # bit 9
    spat = spat.replace("d", "r")
    mn, op = ("std", "Std") if displaced else ("st", "St")
    row(mn, op, spat, [index(r16, mode, q), reg("r")])
row("lds", "Lds", "1001 000d dddd 0000 kkkk kkkk kkkk kkkk", [reg("d"), imm("k", 0, 65535)], core="std")
row("sts", "Sts", "1001 001r rrrr 0000 kkkk kkkk kkkk kkkk", [imm("k", 0, 65535), reg("r")], core="std")
# reduced core (AVRrc): 1010 0kkk dddd kkkk ; field bits (MSB..LSB of the 7-bit field) = k6? no: b10..9 = k5..4, b8 = k6, b3..0 = k3..0
# written as explicit per-bit letters is not possible with one letter, so the 7-bit field value is  f = (k5 k4 k6 k3 k2 k1 k0)
AVR8L_FIELD = "(((v >> 4) & 3) << 5) | (((v >> 6) & 1) << 4) | (v & 15)"
row("lds", "Lds", "1010 0kkk dddd kkkk", [reg("d", HIGH, "v - 16"), imm("k", 0x40, 0xBF, AVR8L_FIELD)], core="avr8l")
row("sts", "Sts", "1010 1kkk rrrr kkkk", [imm("k", 0x40, 0xBF, AVR8L_FIELD), reg("r", HIGH, "v - 16")], core="avr8l")
row("spm", "Spm", "1001 0101 1111 1000", [index("Z", "PostIncrement")])
row("lpm", "Lpm", "1001 0101 1100 1000")
row("lpm", "Lpm", "1001 000d dddd 0100", [reg("d"), index("Z", "None")])
row("lpm", "Lpm", "1001 000d dddd 0101", [reg("d"), index("Z", "PostIncrement")])
row("elpm", "Elpm", "1001 0101 1101 1000")
row("elpm", "Elpm", "1001 000d dddd 0110", [reg("d"), index("Z", "None")])
row("elpm", "Elpm", "1001 000d dddd 0111", [reg("d"), index("Z", "PostIncrement")])

MNEMONICS = sorted({r["mn"] for r in ROWS})

# The reduced core (AVRrc: ATtiny4/5/9/10/20/40) has r16..r31 only: on it every register operand is legal only in that half.
# Instructions the reduced core does not have at all (their removal is the device gate's business, C13) are listed so that
# C01 does not demand that their operands be accepted there.
REDUCED_CORE = {"registers": HIGH,
                "absent_ops": ["Adiw", "Sbiw", "Mul", "Muls", "Mulsu", "Fmul", "Fmuls", "Fmulsu", "Jmp", "Call", "Eijmp", "Eicall",
                               "Lpm", "Elpm", "Spm", "Movw", "Ldd", "Std"]}

if __name__ == "__main__":
    out = {"source": "AVR Instruction Set Manual (written independently of the repository)", "mnemonics": MNEMONICS, "rows": ROWS, "reduced_core": REDUCED_CORE}
    with open(os.path.join(os.path.dirname(os.path.abspath(__file__)), "avr_isa.json"), "w") as fh:
        json.dump(out, fh, indent=0)
    print(len(ROWS), "rows,", len(MNEMONICS), "mnemonics")
