#!/usr/bin/env python3
"""tools/record_fix.py <prop> <name> <commit> <expect-key> <what failed ...>   (like record_fix.sh, safe against shell quoting;
`--no-line` only writes the mutant, for a second property of a fix that is logged already)"""
import subprocess
import sys
args = [a for a in sys.argv[1:] if a != "--no-line"]
prop, name, commit, expect = args[:4]
what = " ".join(args[4:])
diff = subprocess.run(["git", "-C", "/repo", "diff", commit, commit + "~1"], stdout=subprocess.PIPE, text=True, check=True).stdout
import os
os.makedirs("/verif/selftest/%s" % prop, exist_ok=True)
f = "/verif/selftest/%s/mutant-prefix-%s.patch" % (prop, name)
open(f, "w").write("# expect: %s\n# origin: reverse of /repo fix %s (the tree as found)\n%s" % (expect, commit, diff))
if "--no-line" not in sys.argv:
    open("/verif/known_findings.txt", "a").write("fixed: property=%s %s %s\n" % (prop, commit, what))
print("recorded", f)
