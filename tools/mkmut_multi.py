#!/usr/bin/env python3
"""tools/mkmut_multi.py <prop> <mutant|benign> <name> <file> <expect-key-or-> [origin text] < spec
spec: blocks  old\n=====\nnew  separated by a line  #####  ; every old text must occur exactly once in /repo/<file>.
Creates selftest/<prop>/<kind>-<name>.patch."""
import difflib
import os
import sys

prop, kind, name, file, expect = sys.argv[1:6]
origin = sys.argv[6] if len(sys.argv) > 6 else None
src = open(os.path.join("/repo", file)).read()
dst = src
for block in sys.stdin.read().split("\n#####\n"):
    old, new = block.split("\n=====\n")
    old, new = old.strip("\n"), new.strip("\n")
    assert dst.count(old) == 1, "old text occurs %d times: %s" % (dst.count(old), old[:60])
    dst = dst.replace(old, new)
diff = "".join(difflib.unified_diff(src.splitlines(True), dst.splitlines(True), "a/" + file, "b/" + file))
out = os.path.join("/verif/selftest", prop, "%s-%s.patch" % (kind, name))
os.makedirs(os.path.dirname(out), exist_ok=True)
with open(out, "w") as fh:
    if expect != "-":
        fh.write("# expect: %s\n" % expect)
    if origin:
        fh.write("# origin: %s\n" % origin)
    fh.write(diff)
print("wrote", out)
