#!/bin/sh
# tools/try_refactor.sh <refactor-id> <prop> [extra env]: apply refactor/<id>/patch.diff to a scratch copy (kept in /tmp/rf/<id>) and run one check on it
id=$1; prop=$2
d=/tmp/rf/$id
if [ ! -d $d ]; then
  mkdir -p $d
  for e in src includes Cargo.toml Cargo.lock build.rs rust-toolchain.toml tests; do [ -e /repo/$e ] && cp -r /repo/$e $d/; done
  (cd $d && patch -p1 -s --no-backup-if-mismatch < /verif/refactor/$id/patch.diff) || exit 2
fi
cd /verif && AVRA_REPO=$d AVRA_EVIDENCE_DIR=/tmp/rf/ev AVRA_OUT_DIR=/tmp/rf/ev ./check $prop
