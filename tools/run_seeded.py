#!/usr/bin/env python3
"""Runs the checks against the seeded property-breaking changes kept under /verif/seeded/<id>/ (patch.diff + demo + meta.json).
Each patch is applied to /repo (git apply), the checks are run, and the patch is undone straight afterwards (git checkout -- .).
usage: tools/run_seeded.py [--all-checks] [C07 ...]       writes seeded/<id>/result.json and prints a table"""
import json
import os
import subprocess
import sys
from concurrent.futures import ThreadPoolExecutor

VERIF = os.path.dirname(os.path.dirname(os.path.abspath(__file__)))
REPO = "/repo"
ALL = ["C%02d" % i for i in range(1, 19)]


def run_check(pid, evdir):
    env = dict(os.environ, AVRA_EVIDENCE_DIR=evdir, AVRA_OUT_DIR=evdir)
    r = subprocess.run([os.path.join(VERIF, "check"), pid], cwd=VERIF, env=env, stdout=subprocess.PIPE, stderr=subprocess.STDOUT, text=True)
    keys = [l.strip() for l in r.stdout.splitlines() if l.strip().startswith(("violated", "UNPROVABLE"))]
    return pid, r.returncode, keys


def main():
    args = [a for a in sys.argv[1:] if not a.startswith("-")]
    all_checks = "--all-checks" in sys.argv
    ids = args or sorted(d for d in os.listdir(os.path.join(VERIF, "seeded")) if os.path.isdir(os.path.join(VERIF, "seeded", d)))
    assert subprocess.run(["git", "-C", REPO, "status", "--porcelain", "--untracked-files=no"], stdout=subprocess.PIPE, text=True).stdout.strip() == "", "/repo is not clean"
    import tempfile
    for sid in ids:
        d = os.path.join(VERIF, "seeded", sid)
        patch = os.path.join(d, "patch.diff")
        meta = json.load(open(os.path.join(d, "meta.json")))
        prop = meta.get("property", sid[:3])
        neutral = meta.get("status") == "neutralised"     # a later /repo fix made the change behaviour-preserving: checks must stay silent
        ev = tempfile.mkdtemp(prefix="avra-seeded-ev-")
        res = {"seed": sid, "property": prop, "applied": False, "checks": {}}
        try:
            r = subprocess.run(["git", "-C", REPO, "apply", patch], stdout=subprocess.PIPE, stderr=subprocess.STDOUT, text=True)
            if r.returncode != 0:
                res["error"] = "patch does not apply: " + r.stdout.strip()[-200:]
            else:
                res["applied"] = True
                todo = ALL if all_checks else [prop]
                # the property's own check first (builds the facts once), the rest in parallel
                first = run_check(prop, ev)
                out = [first]
                rest = [p for p in todo if p != prop]
                if rest:
                    with ThreadPoolExecutor(max_workers=8) as ex:
                        out += list(ex.map(lambda p: run_check(p, ev), rest))
                for pid, rc, keys in out:
                    res["checks"][pid] = {"rc": rc, "reports": [k[:300] for k in keys[:8]], "n_reports": len(keys)}
        finally:
            subprocess.run(["git", "-C", REPO, "checkout", "--", "."], check=True)
            subprocess.run(["rm", "-rf", ev])
        own = res["checks"].get(prop, {})
        res["caught_by_own_check"] = own.get("rc") == 1
        res["caught_by"] = sorted(p for p, c in res["checks"].items() if c["rc"] == 1)
        if neutral:
            res["neutralised"] = True
        json.dump(res, open(os.path.join(d, "result.json"), "w"), indent=1)
        if neutral:
            print("%s neutralised: %s (reports from %s)" % (sid, "silent, as it must be" if not res["caught_by"] else "FALSE ALARM", res["caught_by"]))
            continue
        print("%s own=%s caught_by=%s  %s" % (sid, "CAUGHT" if res["caught_by_own_check"] else "missed", res["caught_by"], (own.get("reports") or [""])[0][:150]))


if __name__ == "__main__":
    main()
