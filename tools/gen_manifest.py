#!/usr/bin/env python3
"""Regenerates /verif/MANIFEST.json from the table below (single source of truth for what is claimed)."""
import json
import os

VERIF = os.path.dirname(os.path.dirname(os.path.abspath(__file__)))

# id -> dict(built, category, text, note, technique, design_ref, engine, na_reason)
P = {}


def claim(pid, category, technique, text, note, engine="E0+E3"):
    P[pid] = dict(built=True, category=category, technique=technique, text=text, note=note, engine=engine)


def na(pid, reason):
    P[pid] = dict(built=False, na_reason=reason)


for i in range(1, 19):
    na("C%02d" % i, "check not built yet (build in progress, see DESIGN.md §8)")

claim("C17", "other", "whole-program absence rules over callee-resolved MIR (statics/Freeze, constructor slices, hash-iteration and ambient-read deny lists) with a positive-control fixture",
      "Shows on the MIR of both crates that no state can outlive a build or leak an unordered or ambient value: all statics immutable and free of interior mutability, build_str/build_file construct their own contexts from fresh cells, no HashMap/HashSet iteration or formatting and no clock/random/env/thread-id callee in code reachable from the API. That is the complete set of ways one build could influence another in safe Rust without I/O, so absence is the right level; it is decided for every input and schedule at once.",
      "Trusted: rustc MIR + callee resolution; dependencies keep no build-visible globals (peg ExpectedSet type-walked to BTreeSet); file system/CWD count as inputs.")
claim("C18", "other", "CFG reachability / dominance and backward slices on the MIR of main() and the hex writers",
      "Decides the exit-status, failure-reporting, no-output-on-failed-build, default-path and content clauses as path facts on main(): every failure edge must pass process::exit(non-zero) or a panic before a normal return; every file-creating call must be dominated by the build's success edge; writer arguments are traced back to the option fields, the '.hex'/'.eep.hex' constants and this run's BuildResult. Covers all inputs and fault sequences because the clauses are control-flow shape, not data.",
      "Not decided: structopt option parsing, real file-system behaviour, whether an empty flash image must still produce a file. Trusted: process::exit/panic semantics, rustc MIR.")

claim("C01", "proof", "path-sensitive bit-provenance dataflow (abstract interpretation of MIR, symbolic operands) over every acyclic path of the encoder, compared with an independent ISA table",
      "Every successful path of instruction::process is explored with the operands kept symbolic, so one path stands for all operand values in its value sets; the emitted bytes are compared bit for bit with the ISA pattern of the matching row (opcode bits, every field bit = the right bit of the right operand, low byte first, word count) and every legal operand value must be accepted. 160 ISA rows x direct/alias operand kinds; all ~10^5 one-word tuples and the 16/22-bit address spaces are covered without enumeration of the repository code.",
      "Trusted: rustc MIR, spec/avr_isa.json, E1 transfer functions + summaries. Expr::run is opaque (C05). Not decided: that pass 0/1 hand the parsed operands to pass 2 unchanged.", engine="E0+E1+E2")
claim("C03", "proof", "linear-form and value-set dataflow on the displacement term of every relative instruction path; def-use/dominance of pc in pass 2",
      "For the 22 relative forms the displacement term found on the path must be exactly target - current_address - 1 as a linear form, its accepted value set on Ok paths exactly the field range (everything else leaves through Err), and the field the low bits of that term at the ISA position; pass 2 must store `pc` from the same counter it passes as current_address, before encoding. Covers every distance in both directions because target and address are symbols.",
      "Assumes C02 (label values) and C05 (expression values). Trusted: rustc MIR, sx.linear.", engine="E0+E1+E3")
claim("C04", "proof", "value-set dataflow over every acyclic path of the encoder: accepted operand set ⊆ legal set, operand kind and count as path facts",
      "For every (ISA row, operand kind) group the union of the operand value sets that reach an Ok return must be contained in the row's legal set; an Ok path with operand kinds no ISA form has, or one that does not pin the operand count, is a violation. Operand symbols range over all of i64, so negative and absurd values are covered; the ~40 guards are each a branch the exploration must take.",
      "Trusted: rustc MIR, spec/avr_isa.json, E1 value-set refinement. Expr::run opaque.", engine="E0+E1")

claim("C12", "proof", "table evaluation from the MIR of the DEVICES initialiser vs. vendor part files; normalised linear path facts of the limit check (abstract interpretation)",
      "All 54 device rows are read out of the initialiser's MIR and each of the 49 rows that has a shipped part-definition file is compared on its four memory figures; the three capacity comparisons, their units and the device they use are recovered as linear facts on the success path of build_from_parsed and must be exactly len(code) <= 2*flash_size, len(eeprom) <= eeprom_size, ram_filling <= ram_size with the device read after pass 2; reported sizes and the documented defaults are constants/flows checked on the same MIR. 'Exactly at capacity builds, one more fails' follows from the facts for every device at once.",
      "Assumes image lengths < 2^32 (as-u32 casts); that the three usages are what the programs really need is C02. Trusted: rustc MIR, includes/*def.inc as oracle.", engine="E0+E1")
claim("C13", "proof", "exhaustive gate-table extraction by abstract interpretation of Device::check_operation (symbolic flag set) and of the encoder, compared with an independent feature table; dominance in pass 2",
      "For each of the 81 operations the gate's result is obtained as a boolean function of the 16 feature flags and compared on every assignment of the flags involved with the reference table; form-specific flags (X/Y pointer, lpm/elpm Rd,Z) must appear as required path facts on every successful encoder path of the removed forms and on no other form; the gate dominates the encoder call in pass 2 and the encoder's bytes depend on the device only through the one-word lds/sts selection.",
      "Trusted: rustc MIR, spec/avr_features.json, E1. Flags per device are taken from the table as given (C13 quantifies over the table).", engine="E0+E1+E3")

claim("C05", "proof", "operator-table agreement: precedence/associativity/literal table read from the PEG grammar (own reader of rust-peg syntax, cross-checked against the compiled parser's MIR); evaluator table extracted by abstract interpretation of Expr::run; bit provenance for byte/word functions",
      "The expression language is a finite table implemented twice (grammar, evaluator). Grammar side: all 18 binary and 3 unary rows with level, fixity, associativity and token->variant pairing, decided with rust-peg's own translation rule (a precedence-climbing parser is fully determined by that table, so operator interactions are covered); literal prefixes, radices, digit classes, alternative order. Evaluator side: per operator variant the result of Expr::run with symbolic operands must be a single primitive operation that agrees with the reference on a boundary grid separating all primitives (value and failure behaviour: an input with neither an Ok nor an Err path is a violation); functions are decided exactly by bit provenance.",
      "Trusted: rustc MIR, spec/operators.json, peg-macros 0.8.4 translation (read from source), E1. i64::MIN % -1 may be 0 or an error.", engine="E0+E1+E2")

claim("C02", "other", "one-iteration loop summaries (abstract interpretation with symbolic loop-carried state) of pass 1, pass 2 and the two segment loops; agreement of the extracted per-item and per-segment tables",
      "Decides the per-item and per-segment arithmetic in which the two passes can drift apart: instruction length (info.len vs encoder bytes per operation and core), data advance and bytes per (directive, segment, operand kinds) on a grid of abstract sizes, .db padding decided once in pass 1, per-segment-type counters and ram_filling, the .org start/overlap guard and the zero-padding loops landing the next fragment at unit x address, each fragment in its own image. With the loop shape (plain forward iterator, exit only on Err) agreement per iteration gives agreement for every item sequence. Level 'other' because the claim is delimited to these clauses: that the parser/pass 0 deliver the program's segment sequence is not decided.",
      "Assumes for-loops visit each element once in order; image lengths < 2^31. Not decided: .org 0 after code (address==0 sentinel), negative .org, .org inside macros.", engine="E0+E1")
claim("C06", "proof", "value-set and bit-provenance dataflow on the four data conversions; one-iteration loop summaries of the operand loops and of pass 1/2 item handling",
      "For each element width the accepted value set must be exactly the width's signed-or-unsigned range and every emitted bit the right bit of the value in little-endian order (through the resolved byteorder callee); an expression operand contributes exactly its own conversion, a string its bytes (.db) or an error (word directives); operands are visited by a plain forward iterator and appended; segment rules, the one-zero-iff-odd flash padding, no EEPROM padding and '.byte n = n zeros' are per-item path facts of pass 1/pass 2.",
      "Assumes for-loops visit each element once in order; strings are the bytes of the Rust String. Trusted: rustc MIR, E1 summaries.", engine="E0+E1")

claim("C07", "other", "loop summaries of the record generator by abstract interpretation: effective record address (16 x segment base + offset) vs. absolute chunk position over all accepted chunk indices; record-order rules on each path's record list; field flow of the two writers",
      "The repository decides which records with which offsets (record syntax and checksums are the ihex crate's). Every path of generate_hex_from_segment yields its ordered record list with symbolic chunk indices; each Data record's effective address must equal the chunk's position for every index the path accepts (enumerated: 16 blocks x 4096 chunks), no arithmetic may overflow on the way, EndOfFile is last and unique, an empty image yields only EndOfFile, and each writer writes the text generated from its own image with LF->CRLF. Level 'other': the byte-exact round trip through an independent reader is a dynamic oracle and is not claimed.",
      "Trusted: rustc MIR, E1 summaries of chunks/enumerate, the ihex crate. Images beyond 1 MiB are an error, not mis-addressed.", engine="E0+E1+E3")
claim("C08", "model_checking", "protocol tables (Directive::parse, skip with havocked nesting counter, parse_iter dispatch) extracted from MIR by abstract interpretation on every run, composed with the reference semantics as a product automaton and explored exhaustively by BFS to nesting depth 4",
      "Conditional assembly is implemented as a (mode, line class, nesting counter) protocol spread over three functions; the three tables are extracted from the current MIR with conditions and counter symbolic, and the resulting machine is model-checked against 'first true arm, else when none, unselected lines inert (not even their conditions evaluated)' over all well-formed skeletons: any number of arms, every truth assignment, nesting depth <= 4 (finite product, fully explored). A disagreement is reported with the shortest skeleton. No repository code runs; the machine is the extracted table.",
      "Relies on the extraction being exact (every path of the three functions classified, else unprovable). Malformed nesting and side effects of conditions are outside C08.", engine="E0+E1")

claim("C09", "other", "lower-case typestate on macro-table keys (field-based flow analysis incl. RefCell fields); re-parse-safety of the operand printers read from their format templates in MIR; def-use of the segment splice loop; path rules on macro_expand",
      "Macro expansion re-renders parsed arguments to text and re-parses the body; claimed are the four structural conditions without which it cannot be faithful: definition and call agree on the name's letter case, compound-expression printers keep their grouping (literal parentheses, or precedence-aware printing which is not judged), every code segment of an expansion is spliced from the loop's own element, an unknown macro / a left-over @n is an error. Level 'other': equality of expansion and hand-expansion for arbitrary bodies is behavioural and not decided.",
      "Trusted: rustc MIR, analysis/norm.py, decoding of rustc's format_args templates. Nested conditionals in bodies are C08, recursion depth C16.", engine="E0+E3+E4")
claim("C10", "other", "whole-program lower-case typestate on the keys of the five symbol maps (field-based flow analysis over resolved MIR: abstract ADT fields, parameters over all call sites, virtual calls) + path rules by abstract interpretation",
      "Case-insensitive matching is decided as a typestate at all 13 access sites of equs/labels/defs/sets/special: every key must be provably lower-cased, followed through Item/Document payloads (every construction site) and parameters (every call site, virtual calls expanded). Unbound identifier and alias -> Err, bound identifier = looked-up value, alias = stored register, duplicate label rejected, .undef removes, .set/.def/.undef applied in pass 2's forward loop, labels bound in pass 1 before pass 2, .equ at parse time are path/order facts. Level 'other': lookup-order precedence, cross-kind collisions, .equ redefinition are not decided.",
      "Trusted: rustc MIR, analysis/norm.py. Cyclic .equ is C16.", engine="E0+E1+E4")

claim("C11", "other", "def-use / backward-slice and dominance rules on the MIR of the include machinery (sharing vs. fresh construction, chain of custody of the include-path set, error exits, directory flows) + mode table extracted by abstract interpretation",
      "Decides the structural clauses of 'include = paste': the nested parse context shares the includer's segments, macros, messages and symbol context (Rc clones of handle structs, never fresh objects) at both hops; directories added by .includepath inside an included file reach the includer's set at every hop (sharing or write-back after the nested parse); a file that cannot be opened is an error whose message is built from the looked-up path; .exit yields a mode that only ends the current line loop and .include leaves the mode alone; caller directories, the file's own directory and a (joined-when-relative) .includepath argument flow into the searched set and the path as written is tried first. Level 'other': which file wins among several, CWD behaviour, symlinks and I/O errors are runtime configuration, not decided.",
      "Trusted: rustc MIR and callee resolution.", engine="E0+E1+E3")

claim("C14", "other", "matching of generated layout variants against the project's PEG grammar (own rust-peg reader and matcher, cross-checked against the compiled parser's MIR), lower-case typestate on keyword lookups, resolved callee of the line splitter",
      "Blanks, tabs and comments: ~80 line forms (every infix and prefix operator of the precedence table, every pointer form, the directive operand forms, labels) are spelled with every filling of their gaps (nothing, blank, tab, runs), every indentation, trailing blanks and 8 families of trailing comments, and each spelling must be matched by line() through the same alternatives with the same captured texts as the tightest one (~5000 matches; nothing of the repository runs, the grammar text is interpreted with rust-peg's ordered-choice / precedence-climbing semantics). Case: both letter cases in the register and hex-digit classes; lower-casing before the mnemonic, directive, register and function-name lookups. Line ends: str::lines for LF/CRLF; radix forms under C05. Level 'other': the line forms are a finite family, arbitrary nestings of them are not enumerated.",
      "Out of scope: /* */ comments that span lines, upper-case 0X/0B and directive names.", engine="E0+E2+E4")

claim("C15", "other", "error-discipline analysis over resolved MIR: every error exit with a CodePoint in scope (dominating definition) is classified by its format arguments / `?` source, attribution solved as a greatest fixpoint over the call graph; path rules by abstract interpretation for line numbers and .message/.warning/.error; move/clone-only flow of the message list",
      "Error sites are finite and enumerable from MIR although the inputs reaching them are not: ~75 bail! sites and ~100 `?` sites are classified; in a function that knows the current item's line every error must carry it, and `?` is accepted only from callees all of whose exits are attributed (root causes are reported, cascades are not). CodePoint line = iterator index + 1 over lines().enumerate(); .error has no Ok path, .message/.warning push exactly one string with their line and do nothing else; the message list is handed parse -> pass 0 -> 1 -> 2 -> BuildResult by move/clone only. Level 'other': that the *right* line is named when a fault surfaces in a later pass than it was written is not decided.",
      "Named exception: Directive::parse -> parse_file_internal (a nested file's errors carry their own line). Trusted: rustc MIR.", engine="E0+E1+E3")

claim("C16", "other", "site-discipline analysis over callee-resolved dev-profile MIR: every panic-class site (unwrap/expect, Index, overflow/division Assert terminators, explicit panics, RefCell accesses, library calls with panicking preconditions) in code reachable from the API is enumerated and must be discharged by a computed reason (type, abstract-interpretation guard, PEG language inclusion, checked invariant witness, witness-backed counter table); depth guards on every call-graph cycle; loop drivers; capacity comparison before emission",
      "A panic, runaway recursion, endless loop or unbounded allocation happens at a site, and the sites are finite and enumerable from MIR although the inputs are not: ~160 panic-class sites, 6 call-graph cycles, ~43 loops, 54 RefCell guards, 11 precondition-bearing library calls. Each is decided for all inputs at once: a site is discharged only if the failing side is infeasible under the value sets E1 derives from the guards in front of it (every explored path, loops havocked), or by a type fact, or because the finite language of the grammar capture is contained in the keys from_str accepts, or by a named invariant whose structural witness is re-checked each run. Recursion needs a constant-bounded depth guard that dominates every call back into the cycle; loops need a finite in-memory iterator created outside the loop or a monotone variant; memory proportional to a number written in the source may only be produced after pass 1 compared that number with the device capacity. Level 'other': 'promptly' as wall-clock time and stack depth in bytes are not decided.",
      "Assumes dependencies do not panic within their documented contracts (the contracts that take arguments are checked), source text fits in memory. Same-typed RefCells are treated as possibly the same cell unless created in the same function.", engine="E0+E1+E2+E3")

# added while building (DESIGN.md §9.3): appended to the level texts above
ADDED = {
    "C15": " Also decided: a malformed line of the chain being skipped (.else/.elif/.endif/.endmacro) is handed to the line parser; running out of text in search of a closing line is an error. Known findings: .byte operand, order of messages from macro bodies.",
    "C01": " Also decided: recognition (each of the 114 mnemonics, 64 register spellings, the pointer names and the four addressing forms is matched with the grammar under PEG semantics and must map, through the strum from_str tables read from MIR, to the enum value the encoder row is keyed on) and glue (parsed mnemonic and operands -> Instruction item unchanged; encoder bytes -> fragment -> code -> BuildResult.code as a def-use chain). The reduced core is a second view of every row: on paths that may run with Avr8l set, r16..r31 must all be accepted; the devices whose shipped part file declares that core carry the flag. An operand written with pc is encoded from the address of its own instruction (C03's rule under C01's keys).",
    "C02": " Also decided: .org/.byte never drop an operand silently (one recorded known finding), the exact effect of the segment directives on the segment list (an .org just stored survives), and that segments opened while splicing a macro expansion carry the expanded segment's own address and type. A start address stays with the memory it was given in when a segment directive follows; the first segment of a macro expansion is compared with what the expansion was seeded with. Known findings: .byte operand, .org 0 taken for none.",
    "C03": " Findings about the displacement term are required on every success path (a term adjusted on the way is reported); the pc rule is stated per round of the item loop; a target named like a register (r16_loop) is matched as the symbol it is. The value of the label a branch names: pass 1 counts every instruction as long as pass 2 makes it (C02's rules under C03's keys).",
    "C04": " Also decided: the language of the grammar's register rules is exactly the register names (r0..r31, x/y/z, either case); on a reduced core (paths that may run with Avr8l set) every register operand accepts r16..r31 only.",
    "C05": " Known findings: .byte operand, evaluation depth below the line guard. Also decided: strict evaluation (a value only after every operand evaluated), a bound identifier fails only through its definition or the nesting limit, character constants are not narrowed in the compiled action, an operand that is a symbol named like a register (r1x, -zero) is matched as that symbol. An expression handed to a macro is written out and parsed again as the same expression (C09's printer rule under C05's keys).",
    "C06": " Also decided: the length model Operand::len equals the bytes emitted; the fragment pass 2 returns is only ever appended to; a character constant operand keeps its full code point.",
    "C07": " Also decided: completeness (every chunk taken from the image becomes a Data record on every path) and that the writers, seen as a family with their local helpers, create or truncate the file they write. Every write to an output file takes its bytes from the generated records. No adaptor that lets chunks fall out stands between the image and the record loop.",
    "C08": " A branch of skip on the text of a line through anything but the line parser is treated as taken by lines of any class. The scanner's classifier is found by role and well-formedness of a line is a dimension of its own; the product also has an .if with malformed operands and a malformed .endif as letters; `.define NAME value` keeps the value. Known finding: conditionals in macro bodies are decided after the parse. .ifdef/.ifndef ask whether the name is defined as anything; malformed .else/.elif are letters of the product too.",
    "C09": " Also decided: nested binary expressions keep their parentheses (flattening only on the left), headers of the segments opened while splicing, the first-segment decision compares with the output's last segment, every plain item is handed on once and unchanged. The placeholder rule is decided per character on the substitution function. Known finding: bodies are read after the whole file was parsed.",
    "C10": " Also decided: the pass branches on the label insert's own result, pass 2's item loop runs for every segment, a label on any kind of line is bound before the rest of the line. Also decided: a name stands for one thing (labels vs constants, second .def, second different .equ). Known findings: .byte operand, .equ evaluated at use. #define of a name in use, the reserved name of the location counter and the operand count of .undef are decided as well.",
    "C11": " Also decided: the nested context carries the location that was opened, the file's own directory is added on every path, the included file inherits the includer's directories, the whole text read from the opened file is what is parsed, no Ok before the parser ran. Also decided: every place is probed for a file (not a directory). Known finding: directories in macro bodies.",
    "C12": " Also decided: the RAM figure is the extent of the data segment and is handed on unchanged; the .device clause (unknown name, second selection, stored row, operand, exactly one name); every line of every shipped include file is a line of the grammar. Every shipped part-definition file must name a device of the table.",
    "C14": " Also decided: symbol- and macro-table keys are lower-cased; layering rules — nothing in the line pipeline inspects raw line text except through the grammar's code_part rule, whose shape is checked.",
    "C16": " Cycles that re-enter with looked-up or produced values need a shared work budget (fan-out rule). The nesting guard is checked against the grammar: every level-building token steps up, on every path through its arm, a variable that an uncapped comparison limits; prefix operators in front of a parenthesis, blanks between them and the precedence levels climbed on a level are accounted for. Cycles that walk looked-up collections or build text for the next round need budgets that grow with their size. Grammar lint: no repetition asks at every character a question that can scan the rest of the line. Where a round builds text, the bytes of the text of all rounds need a budget.",
    "C18": " The writers are analysed as a family with their local helpers; buffered writers need a checked flush. Also decided: the flash file is written for every successful build, the default paths are built without a text conversion, the two paths are compared before anything is written. The two output paths are compared by the place they lead to.",
}
# round 6 (DESIGN.md §9.12)
ADDED6 = {
    "C02": " The gap in front of a segment is filled only on paths where its fragment is known not to be empty (the passes' notions of 'occupies' agree); the splice decision reads the output's last segment in the round of the call.",
    "C06": " A quoted text reaches the operand as written also through a macro body: outside the per-character argument walk the macro pipeline neither inspects nor rewrites the text of a stored body line.",
    "C09": " Outside the argument walk the macro pipeline (builder::pass0) copies body lines whole (no search, split, trim, join or re-casing of text that comes from a stored line); the type compared in the splice decision is read inside every loop the comparison stands in.",
    "C10": " A symbol map handed to a helper counts as accessed there for every field a caller hands over.",
    "C13": " Every feature of the reference table that removes an instruction or form must have a flag in DisabledOptions.",
    "C14": " The rule macro bodies are cut with (code_text) is matched against sample lines: a ; or // inside a quoted text or /* */ starts no comment.",
    "C15": " An iterator consumer (try_for_each, collect into Result) hands on the errors of the closures of its chain; a call that is the function's value is an error exit like `?`.",
    "C18": " Helpers of main may be closures or free functions of the tool's crate.",
}
for _pid, _txt in ADDED6.items():
    ADDED[_pid] = ADDED.get(_pid, "") + _txt
for _pid, _txt in ADDED.items():
    if P.get(_pid, {}).get("built"):
        P[_pid]["text"] += _txt
P["C01"]["note"] = "Trusted: rustc MIR, spec/avr_isa.json, E1 transfer functions + summaries, analysis/peg.py. Expr::run is opaque (C05)."

ENGINES = [
    {"name": "E0 fact driver", "path": "driver/", "serves_properties": sorted(P), "kind_free_text": "rustc_private driver (RUSTC_WORKSPACE_WRAPPER) dumping callee-resolved MIR, ADT/static/impl tables of /repo's two crates as JSON"},
    {"name": "E1 abstract interpreter", "path": "analysis/absint.py", "serves_properties": ["C01", "C02", "C03", "C04", "C05", "C06", "C08", "C12", "C13"], "kind_free_text": "path-sensitive abstract interpretation of MIR: named unknowns, value sets, bit provenance, linear forms, Option/Result adaptors and range predicates read as the comparisons they abbreviate; no solver, no execution of /repo"},
    {"name": "E2 PEG reader", "path": "analysis/peg.py", "serves_properties": ["C01", "C05", "C14", "C16"], "kind_free_text": "own reader for the rust-peg grammar in src/document.rs (rules, ordered choice, classes, repetition, precedence!), cross-checked per rule against the literals in the compiled parser's MIR"},
    {"name": "E4 lower-case typestate", "path": "analysis/norm.py", "serves_properties": ["C09", "C10", "C14"], "kind_free_text": "greatest-fixpoint, field-sensitive 'always lower-cased string' analysis over resolved MIR"},
    {"name": "E3 graphs", "path": "analysis/graph.py", "serves_properties": ["C15", "C16", "C17", "C18", "C11", "C09"], "kind_free_text": "call graph over resolved callees (virtual/default/fmt/vtable edges), CFG, dominators, reachability"},
]


def main():
    checks = []
    nas = []
    for pid in sorted(P):
        d = P[pid]
        if not d["built"]:
            nas.append({"property_id": pid, "reason": d["na_reason"]})
            continue
        checks.append({
            "property_id": pid,
            "quick_cmd": "./check %s --tier quick" % pid,
            "thorough_cmd": "./check %s --tier thorough" % pid,
            "evidence_file": "/verif/evidence/%s.json" % pid,
            "replay_cmd_template": "./check %s --replay {path}" % pid,
            "engine": d["engine"],
            "level_claimed": {"category": d["category"], "text": d["text"], "design_ref": "DESIGN.md §4 %s" % pid},
            "level_note": d["note"],
            "technique": d["technique"],
        })
    m = {
        "version": 1,
        "setup_cmd": "cd /verif/driver && CARGO_NET_OFFLINE=true cargo +nightly build --release --offline && cd /verif && python3 analysis/facts.py >/dev/null",
        "hooks": {
            "guard": "avra_rs_verif",
            "enable": "no hooks: the checks read the MIR of the unmodified crates (cargo +nightly check through the /verif/driver rustc wrapper); nothing in /repo is instrumented",
            "baseline_off_cmd": "cd /repo && cargo test --workspace --no-fail-fast --offline",
            "source_commits": [],
            "add_only": True,
        },
        "engines": ENGINES,
        "checks": checks,
        "notes": "Static analysis only: no deciding step executes /repo code. Genuine defects found are repaired by `fix:` commits in /repo or listed in /verif/known_findings.txt.",
        "not_applicable": nas,
    }
    with open(os.path.join(VERIF, "MANIFEST.json"), "w") as fh:
        json.dump(m, fh, indent=1)
        fh.write("\n")


if __name__ == "__main__":
    main()
