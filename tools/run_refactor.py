#!/usr/bin/env python3
"""False-alarm sweep: every <dir>/<id>/patch.diff is a behaviour-preserving refactoring of /repo (written by somebody who has not seen
/verif).  Each is applied to a scratch copy of /repo and ALL 18 checks run on it (quick rules, dev and release-like MIR).  A check that
exits non-zero on such a copy is a false alarm of that check (or the refactoring is not behaviour-preserving: read it first).

usage: tools/run_refactor.py [--dir refactor] [--jobs 3] [--no-rel] [<id> ...]     writes <dir>/results.json"""
import json
import os
import re
import subprocess
import sys
import tempfile
import shutil
from concurrent.futures import ThreadPoolExecutor

VERIF = os.path.dirname(os.path.dirname(os.path.abspath(__file__)))
sys.path.insert(0, os.path.join(VERIF, "selftest"))
import run as ST  # noqa: E402

PROPS = ["C%02d" % i for i in range(1, 19)]


def one_check(d, prop, rel):
    ev = tempfile.mkdtemp(prefix="avra-refac-ev-")
    try:
        env = dict(os.environ, AVRA_REPO=d, AVRA_EVIDENCE_DIR=ev, AVRA_OUT_DIR=ev, AVRA_NO_EXTRAS="1")
        if rel:
            env["AVRA_PROFILE"] = "rel"
        r = subprocess.run([os.path.join(VERIF, "check"), prop, "--tier", "quick"], cwd=VERIF, env=env,
                           stdout=subprocess.PIPE, stderr=subprocess.STDOUT, text=True)
        lines = [l.strip() for l in r.stdout.splitlines() if re.match(r"^\s*(violated|UNPROVABLE) ", l)]
        if r.returncode == 2:
            lines.append("CHECKER-ERROR " + r.stdout.strip()[-600:])
        return prop, rel, r.returncode, lines
    finally:
        shutil.rmtree(ev, ignore_errors=True)


def one_patch(pdir, rel_too):
    pid = os.path.basename(pdir)
    d = ST.scratch_copy()
    try:
        body = open(os.path.join(pdir, "patch.diff")).read()
        r = subprocess.run(["patch", "-p1", "--no-backup-if-mismatch", "-s"], input=body, text=True, cwd=d,
                           stdout=subprocess.PIPE, stderr=subprocess.STDOUT)
        if r.returncode != 0:
            return pid, {"status": "does-not-apply", "detail": r.stdout.strip()[-300:]}
        # first check alone (it builds the fact files for this copy), the rest in parallel
        jobs = [(p, False) for p in PROPS] + ([(p, True) for p in PROPS] if rel_too else [])
        out = [one_check(d, *jobs[0])]
        with ThreadPoolExecutor(max_workers=6) as ex:
            out += list(ex.map(lambda j: one_check(d, *j), jobs[1:]))
        alarms = {}
        for prop, rel, rc, lines in out:
            if rc != 0:
                alarms.setdefault(prop, []).extend((("rel|" if rel else "") + l) for l in (lines or ["rc=%d" % rc]))
        return pid, {"status": "silent" if not alarms else "ALARM", "alarms": alarms}
    finally:
        shutil.rmtree(d, ignore_errors=True)


def main():
    args = sys.argv[1:]
    rdir = os.path.join(VERIF, "refactor")
    jobs = 3
    rel_too = True
    ids = []
    i = 0
    while i < len(args):
        if args[i] == "--dir":
            rdir = os.path.abspath(args[i + 1]); i += 2
        elif args[i] == "--jobs":
            jobs = int(args[i + 1]); i += 2
        elif args[i] == "--no-rel":
            rel_too = False; i += 1
        else:
            ids.append(args[i]); i += 1
    pdirs = sorted(os.path.join(rdir, n) for n in os.listdir(rdir)
                   if os.path.exists(os.path.join(rdir, n, "patch.diff")) and (not ids or n in ids))
    results = {}
    rfile = os.path.join(rdir, "results.json")
    if os.path.exists(rfile) and ids:
        results = json.load(open(rfile))
    bad = 0
    with ThreadPoolExecutor(max_workers=jobs) as ex:
        for pid, res in ex.map(lambda p: one_patch(p, rel_too), pdirs):
            results[pid] = res
            print("%-10s %s" % (pid, res["status"]))
            for prop, lines in sorted(res.get("alarms", {}).items()):
                bad += 1
                for l in lines:
                    print("      %s %s" % (prop, l[:300]))
    with open(rfile, "w") as fh:
        json.dump(results, fh, indent=1, sort_keys=True)
    return 1 if bad else 0


if __name__ == "__main__":
    sys.exit(main())
