#!/bin/bash
# usage: record_fix.sh <prop> <name> <commit> "<expect key substring>" "<what failed>"
# stores the reverse of a /repo fix commit as a must-fire self-test mutant and appends the fixed: line
set -e
P=$1; N=$2; C=$3; E=$4; W=$5
mkdir -p /verif/selftest/$P
F=/verif/selftest/$P/mutant-prefix-$N.patch
{ echo "# expect: $E"; echo "# origin: reverse of /repo fix $C (the tree as found)"; git -C /repo diff $C $C~1; } > $F
echo "fixed: property=$P $C $W" >> /verif/known_findings.txt
echo recorded $F
