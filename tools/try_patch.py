#!/usr/bin/env python3
"""Applies one patch to a scratch copy of /repo and runs checks on it (dev profile; --rel: release-like MIR too).
usage: tools/try_patch.py [--rel] <patch.diff> [C05 ...]       prints every violated/UNPROVABLE line; never touches /repo"""
import os
import shutil
import subprocess
import sys

VERIF = os.path.dirname(os.path.dirname(os.path.abspath(__file__)))
sys.path.insert(0, os.path.join(VERIF, "selftest"))
sys.path.insert(0, os.path.join(VERIF, "tools"))
import run as ST  # noqa: E402
import run_refactor as RR  # noqa: E402
from concurrent.futures import ThreadPoolExecutor  # noqa: E402


def main():
    args = [a for a in sys.argv[1:] if a != "--rel"]
    rel = "--rel" in sys.argv
    patch, props = args[0], (args[1:] or RR.PROPS)
    d = ST.scratch_copy()
    try:
        body = "".join(l for l in open(patch) if not l.startswith("# "))
        r = subprocess.run(["patch", "-p1", "--no-backup-if-mismatch", "-s"], input=body, text=True, cwd=d,
                           stdout=subprocess.PIPE, stderr=subprocess.STDOUT)
        if r.returncode != 0:
            print("does not apply:", r.stdout.strip()[-300:])
            return 2
        jobs = [(p, False) for p in props] + ([(p, True) for p in props] if rel else [])
        out = [RR.one_check(d, *jobs[0])]
        with ThreadPoolExecutor(max_workers=6) as ex:
            out += list(ex.map(lambda j: RR.one_check(d, *j), jobs[1:]))
        bad = 0
        for prop, isrel, rc, lines in out:
            if rc != 0:
                bad += 1
                for l in lines or ["rc=%d" % rc]:
                    print("%s %s%s" % (prop, "rel|" if isrel else "", l[:400]))
        print("alarming checks: %d of %d" % (bad, len(jobs)))
        return 1 if bad else 0
    finally:
        shutil.rmtree(d, ignore_errors=True)


if __name__ == "__main__":
    sys.exit(main())
