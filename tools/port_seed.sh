#!/bin/bash
# usage: port_seed.sh <seed-id>   tries to re-base seeded/<id>/patch.diff on /repo HEAD with patch(1) fuzz in a scratch worktree;
# on success keeps the original as patch.orig.diff (if not kept yet) and writes the re-based diff. Leaves /tmp/port-wt for hand work on failure.
set -e
S=$1; D=/verif/seeded/$S; W=/tmp/port-wt
git -C /repo worktree remove --force $W 2>/dev/null || true
git -C /repo worktree add -q --detach $W HEAD
if (cd $W && patch -p1 --fuzz=3 --no-backup-if-mismatch -s < $D/patch.diff); then
  [ -f $D/patch.orig.diff ] || cp $D/patch.diff $D/patch.orig.diff
  git -C $W diff > $D/patch.diff
  git -C /repo worktree remove --force $W
  echo "ported $S"
else
  echo "FAILED $S: finish by hand in $W, then: git -C $W diff > $D/patch.diff; git -C /repo worktree remove --force $W"
fi
