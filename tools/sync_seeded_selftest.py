#!/usr/bin/env python3
"""(Re)writes selftest/<prop>/mutant-seeded-<seed>.patch from seeded/<seed>/{patch.diff,meta.json,result.json}.
A seed that its own property's check does not report goes to the check named in OTHER (recorded from an --all-checks run)."""
import glob, json, os, re
VERIF = os.path.dirname(os.path.dirname(os.path.abspath(__file__)))
OTHER = {"C15-r2": "C10", "C01-r3": "C02"}
for d in sorted(glob.glob(os.path.join(VERIF, "seeded", "*", ""))):
    sid = os.path.basename(d.rstrip("/"))
    meta = json.load(open(d + "meta.json"))
    prop = meta["property"]
    res = json.load(open(d + "result.json"))
    if meta.get("status") == "neutralised":
        for old in glob.glob(os.path.join(VERIF, "selftest", "*", "*-seeded-%s.patch" % sid.lower())):
            os.remove(old)
        dst = os.path.join(VERIF, "selftest", prop, "benign-seeded-%s.patch" % sid.lower())
        with open(dst, "w") as fh:
            fh.write("# origin: seeded change %s, behaviour-preserving since a later /repo fix: %s\n%s" % (
                sid, meta.get("status_note", "")[:300].replace("\n", " "), open(d + "patch.diff").read()))
        print(sid, "->", os.path.relpath(dst, VERIF), "(must stay silent)")
        continue
    target = prop if res["checks"].get(prop, {}).get("reports") else OTHER.get(sid)
    if target is None or not res["checks"].get(target, {}).get("reports"):
        print("skip", sid, "(no recorded report; run tools/run_seeded.py --all-checks %s)" % sid)
        continue
    rep = res["checks"][target]["reports"][0]
    m = re.match(r"^(violated|UNPROVABLE) (.*?): ", rep)
    key = m.group(2).split("|alias+")[0].split("|expr+alias")[0]
    for old in glob.glob(os.path.join(VERIF, "selftest", "*", "mutant-seeded-%s.patch" % sid.lower())):
        os.remove(old)
    os.makedirs(os.path.join(VERIF, "selftest", target), exist_ok=True)
    dst = os.path.join(VERIF, "selftest", target, "mutant-seeded-%s.patch" % sid.lower())
    with open(dst, "w") as fh:
        fh.write("# expect: %s\n# origin: seeded change %s (sub-agent; written against property %s): %s\n%s" % (
            key, sid, prop, meta["summary"][:300].replace("\n", " "), open(d + "patch.diff").read()))
    print(sid, "->", os.path.relpath(dst, VERIF), key)
