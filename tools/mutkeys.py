#!/usr/bin/env python3
"""prints the violation keys a patch provokes:  tools/mutkeys.py C16 selftest/C16/x.patch [...]"""
import os, subprocess, sys, tempfile, shutil
sys.path.insert(0, os.path.join(os.path.dirname(os.path.abspath(__file__)), "..", "selftest"))
import run as R
prop = sys.argv[1]
for patch in sys.argv[2:]:
    d = R.scratch_copy(); ev = tempfile.mkdtemp(prefix="avra-selftest-ev-")
    try:
        body = "".join(l for l in open(patch) if not l.startswith("# "))
        r = subprocess.run(["patch", "-p1", "--no-backup-if-mismatch", "-s"], input=body, text=True, cwd=d, stdout=subprocess.PIPE, stderr=subprocess.STDOUT)
        print("==", os.path.basename(patch), "(patch rc %d)" % r.returncode)
        env = dict(os.environ, AVRA_REPO=d, AVRA_EVIDENCE_DIR=ev, AVRA_OUT_DIR=ev)
        r = subprocess.run([os.path.join(R.VERIF, "check"), prop], cwd=R.VERIF, env=env, stdout=subprocess.PIPE, stderr=subprocess.STDOUT, text=True)
        for l in r.stdout.splitlines():
            if "violated" in l or "UNPROVABLE" in l or "KNOWN" in l or "Error" in l or "error" in l[:20]:
                print("  ", l.strip()[:int(os.environ.get("W", "260"))])
        print("   rc", r.returncode)
    finally:
        shutil.rmtree(d, ignore_errors=True); shutil.rmtree(ev, ignore_errors=True)
