#!/usr/bin/env python3
"""tools/rebase_patch.py <old-base-commit> <patch> [...]: re-base self-test / seeded patches that no longer apply to /repo HEAD by a
three-way merge: the patch is committed on <old-base-commit> in a scratch clone and cherry-picked onto HEAD.  On success the patch file
is rewritten (comment header kept); on conflict the file is left alone and the conflict is reported."""
import os, subprocess, sys, shutil, tempfile
base = sys.argv[1]
W = tempfile.mkdtemp(prefix="rebase-")
run = lambda *a, **k: subprocess.run(*a, stdout=subprocess.PIPE, stderr=subprocess.STDOUT, text=True, **k)
run(["git", "clone", "-q", "/repo", W])
head = run(["git", "-C", "/repo", "rev-parse", "HEAD"]).stdout.strip()
for pth in sys.argv[2:]:
    lines = open(pth).read().splitlines(True)
    header = [l for l in lines if l.startswith("# ")]
    body = "".join(l for l in lines if not l.startswith("# "))
    run(["git", "-C", W, "checkout", "-q", "-f", base]); run(["git", "-C", W, "clean", "-fdq"])
    r = subprocess.run(["patch", "-p1", "-s", "--no-backup-if-mismatch"], input=body, text=True, cwd=W, stdout=subprocess.PIPE, stderr=subprocess.STDOUT)
    if r.returncode != 0:
        print("NOT-ON-BASE", pth, r.stdout.strip().splitlines()[-1:]); continue
    run(["git", "-C", W, "add", "-A"]); run(["git", "-C", W, "-c", "user.email=x@x", "-c", "user.name=x", "commit", "-qm", "p"])
    c = run(["git", "-C", W, "rev-parse", "HEAD"]).stdout.strip()
    run(["git", "-C", W, "checkout", "-q", "-f", head])
    r = run(["git", "-C", W, "-c", "user.email=x@x", "-c", "user.name=x", "cherry-pick", "--no-commit", c])
    if r.returncode != 0:
        st = run(["git", "-C", W, "diff", "--name-only", "--diff-filter=U"]).stdout.split()
        print("CONFLICT", pth, st)
        run(["git", "-C", W, "cherry-pick", "--abort"]); run(["git", "-C", W, "reset", "-q", "--hard", head])
        continue
    d = run(["git", "-C", W, "diff", "--cached", head]).stdout
    run(["git", "-C", W, "reset", "-q", "--hard", head])
    if not d.strip():
        print("EMPTY", pth); continue
    open(pth, "w").write("".join(header) + d)
    print("rebased", pth)
shutil.rmtree(W, ignore_errors=True)
