#!/usr/bin/env python3
"""Confirms seeded changes independently of their authors: for every <dir>/<id>/ (patch.diff, demo/run.sh, meta.json) a scratch git worktree
of /repo HEAD is made under /tmp, the patch applied, the crate built and the whole unedited test suite run; the demonstration is then run
against the unchanged binary and against the changed one.  Writes <dir>/<id>/confirm.json.  Worktrees and build output are removed.
usage: tools/confirm_seeds.py <dir> [--jobs 4] [<id> ...]"""
import json
import os
import shutil
import subprocess
import sys
from concurrent.futures import ThreadPoolExecutor

ENV = dict(os.environ, CARGO_NET_OFFLINE="true")


def sh(cmd, cwd=None, env=None, timeout=1800):
    r = subprocess.run(cmd, cwd=cwd, env=env or ENV, stdout=subprocess.PIPE, stderr=subprocess.STDOUT, text=True, timeout=timeout)
    return r.returncode, r.stdout


def demo(sdir, binary):
    run = os.path.join(sdir, "demo", "run.sh")
    try:
        rc, out = sh(["sh", run, binary], cwd=os.path.join(sdir, "demo"), timeout=600)
    except subprocess.TimeoutExpired:
        return -1, "TIMEOUT"
    return rc, out


def one(sdir, base_bin):
    sid = os.path.basename(sdir)
    wt = "/tmp/conf-wt-%s" % sid
    tgt = wt + "-target"
    res = {"seed": sid}
    try:
        sh(["git", "-C", "/repo", "worktree", "remove", "--force", wt])
        rc, out = sh(["git", "-C", "/repo", "worktree", "add", "--detach", wt, "HEAD"])
        rc, out = sh(["git", "-C", wt, "apply", os.path.join(sdir, "patch.diff")])
        res["applies"] = rc == 0
        if rc != 0:
            res["error"] = out[-300:]
            return res
        env = dict(ENV, CARGO_TARGET_DIR=tgt)
        rc, out = sh(["cargo", "build", "--offline"], cwd=wt, env=env)
        res["builds"] = rc == 0
        if rc != 0:
            res["error"] = out[-600:]
            return res
        rc, out = sh(["cargo", "test", "--workspace", "--no-fail-fast", "--offline"], cwd=wt, env=env)
        passed = sum(int(l.split("ok.")[1].split("passed")[0]) for l in out.splitlines() if l.startswith("test result: ok."))
        res["tests_rc"] = rc
        res["tests_passed"] = passed
        b_rc, b_out = demo(sdir, base_bin)
        c_rc, c_out = demo(sdir, os.path.join(tgt, "debug", "avra-rs"))
        import re
        norm = lambda s: re.sub(r"/tmp/[\w./-]+", "<tmp>", s)
        res["demo_baseline_rc"], res["demo_changed_rc"] = b_rc, c_rc
        res["demo_outputs_differ"] = norm(b_out) != norm(c_out)
        res["demo_baseline_tail"] = norm(b_out)[-700:]
        res["demo_changed_tail"] = norm(c_out)[-700:]
        res["confirmed"] = bool(res["builds"] and rc == 0 and passed >= 67 and res["demo_outputs_differ"])
        return res
    finally:
        sh(["git", "-C", "/repo", "worktree", "remove", "--force", wt])
        shutil.rmtree(wt, ignore_errors=True)
        shutil.rmtree(tgt, ignore_errors=True)


def main():
    args = sys.argv[1:]
    d = os.path.abspath(args[0])
    jobs = 4
    ids = []
    i = 1
    while i < len(args):
        if args[i] == "--jobs":
            jobs = int(args[i + 1]); i += 2
        else:
            ids.append(args[i]); i += 1
    sdirs = sorted(os.path.join(d, n) for n in os.listdir(d) if os.path.exists(os.path.join(d, n, "patch.diff")) and (not ids or n in ids))
    base_wt, base_tgt = "/tmp/conf-wt-base", "/tmp/conf-wt-base-target"
    sh(["git", "-C", "/repo", "worktree", "remove", "--force", base_wt])
    sh(["git", "-C", "/repo", "worktree", "add", "--detach", base_wt, "HEAD"])
    try:
        rc, out = sh(["cargo", "build", "--offline"], cwd=base_wt, env=dict(ENV, CARGO_TARGET_DIR=base_tgt))
        assert rc == 0, out[-500:]
        base_bin = os.path.join(base_tgt, "debug", "avra-rs")
        with ThreadPoolExecutor(max_workers=jobs) as ex:
            for res in ex.map(lambda s: one(s, base_bin), sdirs):
                with open(os.path.join(d, res["seed"], "confirm.json"), "w") as fh:
                    json.dump(res, fh, indent=1)
                print("%-10s confirmed=%s builds=%s tests=%s/%s demo rc base=%s changed=%s differ=%s" % (
                    res["seed"], res.get("confirmed"), res.get("builds"), res.get("tests_passed"), res.get("tests_rc"),
                    res.get("demo_baseline_rc"), res.get("demo_changed_rc"), res.get("demo_outputs_differ")))
    finally:
        sh(["git", "-C", "/repo", "worktree", "remove", "--force", base_wt])
        shutil.rmtree(base_wt, ignore_errors=True)
        shutil.rmtree(base_tgt, ignore_errors=True)
        sh(["git", "-C", "/repo", "worktree", "prune"])


if __name__ == "__main__":
    main()
