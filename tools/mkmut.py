#!/usr/bin/env python3
"""tools/mkmut.py <prop> <mutant|benign> <name> <file> <expect-key-or-> <<'X'
old text
=====
new text
X
Creates selftest/<prop>/<kind>-<name>.patch (a unified diff against /repo's current file). The old text must occur exactly once
(or pass --nth N for the N-th occurrence, 1-based)."""
import difflib
import os
import sys

args = sys.argv[1:]
nth = None
if "--nth" in args:
    i = args.index("--nth")
    nth = int(args[i + 1])
    del args[i:i + 2]
prop, kind, name, file, expect = args[:5]
text = sys.stdin.read()
old, new = text.split("\n=====\n")
new = new.rstrip("\n")
old = old.rstrip("\n")
path = os.path.join("/repo", file)
src = open(path).read()
cnt = src.count(old)
if nth is None:
    assert cnt == 1, "old text occurs %d times in %s" % (cnt, file)
    dst = src.replace(old, new)
else:
    assert cnt >= nth, "only %d occurrences" % cnt
    pos = -1
    for _ in range(nth):
        pos = src.index(old, pos + 1)
    dst = src[:pos] + new + src[pos + len(old):]
diff = "".join(difflib.unified_diff(src.splitlines(True), dst.splitlines(True), "a/" + file, "b/" + file))
d = os.path.join("/verif/selftest", prop)
os.makedirs(d, exist_ok=True)
out = os.path.join(d, "%s-%s.patch" % (kind, name))
with open(out, "w") as fh:
    if expect != "-":
        fh.write("# expect: %s\n" % expect)
    fh.write("# origin: hand-written self-test %s\n" % kind)
    fh.write(diff)
print("wrote", out)
